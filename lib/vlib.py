"""Shared machinery of the /verif checks: scratch dirs, TLC runs, Go harness
builds, evidence files, known findings, verdict lines.

Exit codes of a check:  0 property held on everything explored
                        1 violation (a `VIOLATION property=<id> replay=<path>` line was printed)
                        2 infrastructure failure (never a violation)
"""
import json
import os
import re
import shutil
import subprocess
import sys
import time

ROOT = os.path.dirname(os.path.dirname(os.path.abspath(__file__)))
REPO = os.environ.get("VERIF_REPO", "/repo")
SPECS = os.path.join(ROOT, "specs")
HARNESS = os.path.join(ROOT, "harness")
EVIDENCE = os.path.join(ROOT, "evidence")
REPLAYS = os.path.join(EVIDENCE, "replays")
WORKROOT = os.path.join(ROOT, ".work")
NCPU = os.cpu_count() or 4


class Infra(Exception):
    """Infrastructure failure: exit 2, never a violation."""


def goenv():
    env = dict(os.environ)
    env.update({
        "GOFLAGS": "-mod=mod",
        "GOPROXY": "off",
        "GOSUMDB": "off",
        "GOTOOLCHAIN": "local",
        "CGO_ENABLED": env.get("CGO_ENABLED", "1"),
    })
    return env


def log(*a):
    print(*a, flush=True)


class Ctx:
    """One run of one check."""

    def __init__(self, pid, tier, seed):
        self.pid = pid
        self.tier = tier
        self.seed = seed
        self.t0 = time.time()
        self.work = os.path.join(WORKROOT, pid)
        shutil.rmtree(self.work, ignore_errors=True)
        os.makedirs(self.work, exist_ok=True)
        os.makedirs(REPLAYS, exist_ok=True)
        self._clean_replays = True
        self.violations = []      # dicts: key, what, replay (object)
        self.known_hits = []
        self.cov = {}             # coverage dict for the evidence file
        self.assumptions = []
        self.samples = []
        self.tlc_runs = []
        self.notes = []
        self._nrep = 0

    @property
    def quick(self):
        return self.tier == "quick"

    def path(self, *p):
        return os.path.join(self.work, *p)

    # ---------------------------------------------------------------- TLC
    def tlc(self, module, cfg, *, workers=None, timeout=600, simulate=None, depth=None,
            extra=None, java_opts=None, expect="ok", name=None, keep_stdout=False,
            overrides=None):
        """Run TLC on specs/<module>.tla with specs/<cfg>. Returns a dict.
        expect: "ok" (no error), "violation" (some violation required: vacuity guard),
                "any" (caller inspects)."""
        name = name or cfg.replace(".cfg", "")
        d = self.path("tlc-" + name)
        shutil.rmtree(d, ignore_errors=True)
        os.makedirs(d)
        for f in os.listdir(SPECS):
            if f.endswith(".tla") or f.endswith(".cfg"):
                shutil.copy(os.path.join(SPECS, f), d)
        if overrides:
            # textual overrides of CONSTANT lines in the cfg: {"MaxEv": "4"}
            p = os.path.join(d, cfg)
            txt = open(p).read()
            for k, v in overrides.items():
                txt, n = re.subn(r"(?m)^(\s*%s\s*=\s*).*$" % re.escape(k), lambda m: m.group(1) + v, txt)
                if n == 0:
                    raise Infra("override %s not found in %s" % (k, cfg))
            open(p, "w").write(txt)
        w = str(workers or NCPU)
        cmd = ["timeout", "-k", "10", str(timeout), "tlc", "-workers", w, "-metadir", os.path.join(d, "md"),
               "-config", cfg]
        if simulate:
            cmd += ["-simulate", simulate]
        if depth:
            cmd += ["-depth", str(depth)]
        if self.seed is not None and simulate:
            cmd += ["-seed", str(self.seed)]
        cmd += list(extra or [])
        cmd += [module + ".tla"]
        env = dict(os.environ)
        if java_opts:
            env["JAVA_TOOL_OPTIONS"] = java_opts
        t = time.time()
        outp = os.path.join(d, "stdout.txt")
        with open(outp, "w") as fo:
            rc = subprocess.call(cmd, cwd=d, stdout=fo, stderr=subprocess.STDOUT, env=env)
        dt = time.time() - t
        if os.environ.get("VERIF_TIMING"):
            log("[timing] %6.1fs tlc %s %s" % (dt, module, name))
        res = parse_tlc(outp)
        res.update({"rc": rc, "wall_s": round(dt, 2), "cmd": " ".join(cmd[3:]), "stdout": outp, "dir": d,
                    "name": name})
        if rc in (124, 137):
            raise Infra("TLC timed out after %ss: %s" % (timeout, res["cmd"]))
        if res["fatal"]:
            raise Infra("TLC failed (%s): %s\n%s" % (name, res["fatal"], tail(outp)))
        if expect == "ok" and res["violated"]:
            raise Infra("TLC reports %s violated on the specification itself (%s); the design model is "
                        "not a model of the property - fix the specification\n%s"
                        % (res["violated"], name, tail(outp, 60)))
        if expect == "violation" and not res["violated"]:
            raise Infra("vacuity guard: TLC found no violation in the seeded-bug configuration %s" % name)
        self.tlc_runs.append({k: res[k] for k in ("name", "cmd", "generated", "distinct", "depth", "violated",
                                                  "wall_s")})
        return res

    # ----------------------------------------------------------------- Go
    def go_sync(self):
        """Make sure the harness module has sums for everything /repo needs."""
        src = os.path.join(REPO, "go.sum")
        dst = os.path.join(HARNESS, "go.sum")
        have = set(open(dst).read().splitlines()) if os.path.exists(dst) else set()
        want = [l for l in open(src).read().splitlines() if l and l not in have]
        if want:
            with open(dst, "a") as f:
                f.write("\n".join(want) + "\n")

    def harness_dir(self):
        """The harness module; when VERIF_REPO points elsewhere than /repo, a scratch copy whose go.mod
        replaces the repository module by that tree."""
        if REPO == "/repo":
            return HARNESS
        d = self.path("harness-src")
        if not os.path.isdir(d):
            shutil.copytree(HARNESS, d)
            gm = os.path.join(d, "go.mod")
            txt = open(gm).read().replace("=> /repo", "=> " + REPO)
            open(gm, "w").write(txt)
        return d

    def go_build(self, pkg, *, tags="verif", race=False, out=None):
        self.go_sync()
        if os.environ.get("VERIF_RACE"):   # diagnostic: every harness binary under the race detector
            race = True
        out = out or self.path("bin-" + os.path.basename(pkg) + ("-race" if race else ""))
        cmd = ["go", "build", "-tags", tags, "-o", out]
        if race:
            cmd.append("-race")
        cmd.append(pkg)
        t = time.time()
        p = subprocess.run(cmd, cwd=self.harness_dir(), env=goenv(), stdout=subprocess.PIPE, stderr=subprocess.STDOUT,
                           text=True)
        if os.environ.get("VERIF_TIMING"):
            log("[timing] %6.1fs go build %s%s" % (time.time() - t, pkg, " -race" if race else ""))
        if p.returncode != 0:
            # a tree that does not compile is not a verdict about the property
            raise Infra("go build failed for %s:\n%s" % (pkg, p.stdout[-4000:]))
        return out

    def run(self, cmd, *, timeout=600, cwd=None, env=None, stdin=None, check=True, stdout=None):
        full = ["timeout", "-k", "10", str(timeout)] + cmd
        t = time.time()
        p = subprocess.run(full, cwd=cwd or self.work, env=env or goenv(), stdin=stdin,
                           stdout=stdout or subprocess.PIPE, stderr=subprocess.STDOUT, text=True)
        if os.environ.get("VERIF_TIMING"):
            log("[timing] %6.1fs %s" % (time.time() - t, " ".join(os.path.basename(c) for c in cmd[:4])))
        if p.returncode in (124, 137):
            raise Infra("timed out after %ss: %s" % (timeout, " ".join(cmd)))
        if check and p.returncode != 0:
            raise Infra("command failed (%d): %s\n%s" % (p.returncode, " ".join(cmd), (p.stdout or "")[-4000:]))
        return p

    # ------------------------------------------------------------ verdicts
    def violation(self, key, what, replay):
        """Record a violation exhibited on the real code. `key` identifies the specific failing
        input/history class (matched against known_findings.json)."""
        self.violations.append({"key": key, "what": what, "replay": replay})

    def finish(self, level, coverage, assumptions=None):
        # replay files of earlier runs of this check are stale now
        import glob
        for f in glob.glob(os.path.join(REPLAYS, self.pid + "-*.json")):
            try:
                os.remove(f)
            except OSError:
                pass
        known = load_known(self.pid)
        nviol = 0
        seen_known = set()
        for v in self.violations:
            if v["key"] in known:
                if v["key"] not in seen_known:
                    seen_known.add(v["key"])
                    log("KNOWN-FINDING: property=%s %s" % (self.pid, known[v["key"]]))
                continue
            nviol += 1
            self._nrep += 1
            rp = os.path.join(REPLAYS, "%s-%d.json" % (self.pid, self._nrep))
            with open(rp, "w") as f:
                json.dump({"property": self.pid, "key": v["key"], "what": v["what"], "tier": self.tier,
                           "seed": self.seed, "replay": v["replay"]}, f, indent=1)
            if self._nrep <= 20:
                log("VIOLATION property=%s replay=%s" % (self.pid, rp))
                log("  " + v["what"][:600])
        cov = dict(coverage)
        cov.setdefault("tlc_runs", self.tlc_runs)
        if self.notes:
            cov.setdefault("notes", self.notes)
        ev = {
            "property_id": self.pid,
            "tier": self.tier,
            "seed": int(self.seed),
            "level": level,
            "coverage": cov,
            "assumptions": assumptions or self.assumptions,
            "wall_s": round(time.time() - self.t0, 2),
            "violations": nviol,
        }
        os.makedirs(EVIDENCE, exist_ok=True)
        tmp = os.path.join(EVIDENCE, self.pid + ".json.tmp")
        with open(tmp, "w") as f:
            json.dump(ev, f, indent=1, default=str)
        os.replace(tmp, os.path.join(EVIDENCE, self.pid + ".json"))
        if not os.environ.get("VERIF_KEEP_WORK"):
            shutil.rmtree(self.work, ignore_errors=True)
        log("%s %s tier=%s seed=%s wall=%.1fs violations=%d" % (
            "FAIL" if nviol else "PASS", self.pid, self.tier, self.seed, time.time() - self.t0, nviol))
        return 1 if nviol else 0


def tail(path, n=30):
    try:
        return "".join(open(path, errors="replace").readlines()[-n:])
    except OSError:
        return ""


_RE_STATES = re.compile(r"^(\d+) states generated, (\d+) distinct states found, (\d+) states left on queue", re.M)
_RE_DEPTH = re.compile(r"The depth of the complete state graph search is (\d+)")
_RE_SIM = re.compile(r"The number of states generated: (\d+)")


def parse_tlc(outp):
    txt = open(outp, errors="replace").read()
    res = {"generated": 0, "distinct": 0, "depth": 0, "violated": None, "fatal": None, "queue": 0}
    m = None
    for m in _RE_STATES.finditer(txt):
        pass
    if m:
        res["generated"], res["distinct"], res["queue"] = int(m.group(1)), int(m.group(2)), int(m.group(3))
    m = _RE_DEPTH.search(txt)
    if m:
        res["depth"] = int(m.group(1))
    m = _RE_SIM.search(txt)
    if m and not res["generated"]:
        res["generated"] = int(m.group(1))
    m = re.search(r"Error: Invariant (\S+) is violated", txt)
    if m:
        res["violated"] = m.group(1)
    m2 = re.search(r"Error: Action property (\S+) is violated", txt)
    if m2 and not res["violated"]:
        res["violated"] = m2.group(1)
    if not res["violated"]:
        m3 = re.search(r"Error: Temporal propert(?:y|ies) (.*?) (?:was|were) violated", txt)
        if m3:
            res["violated"] = "temporal:" + m3.group(1)
        elif "Temporal properties were violated" in txt:
            res["violated"] = "temporal"
    if not res["violated"] and "Error: Deadlock reached" in txt:
        res["violated"] = "deadlock"
    if not res["violated"] and re.search(r"Error: The postcondition|Postcondition.*violated|POSTCONDITION", txt) \
            and "violated" in txt:
        res["violated"] = "postcondition"
    if not res["violated"]:
        m = re.search(r"^Error: (.*)$", txt, re.M)
        if m and "Model checking completed" not in txt and "Finished" in txt:
            res["fatal"] = m.group(1)
        elif m and "TLC threw" in txt:
            res["fatal"] = m.group(1)
        elif "Exception" in txt and "Model checking completed" not in txt and not res["generated"]:
            res["fatal"] = "exception"
    res["text"] = None
    return res


def tlc_prints(outp, marker):
    """Lines printed by PrintT(<<marker, json>>): returns the decoded JSON values."""
    pre = '<<"%s", "' % marker
    out = []
    with open(outp, errors="replace") as f:
        for line in f:
            if line.startswith(pre):
                body = line.rstrip("\n")
                body = body[len(pre):]
                if body.endswith('">>'):
                    body = body[:-3]
                # TLC prints the string with TLA+ escapes: \" and \\
                body = body.replace('\\"', '"').replace("\\\\", "\\")
                out.append(json.loads(body))
    return out


def load_known(pid):
    p = os.path.join(ROOT, "known_findings.json")
    known = {}
    if os.path.exists(p):
        for e in json.load(open(p)).get("findings", []):
            if e.get("property") == pid and e.get("status") == "known":
                known[e["key"]] = e.get("what", e["key"])
    return known


def main(checks):
    import argparse
    ap = argparse.ArgumentParser()
    ap.add_argument("pid")
    ap.add_argument("--tier", default=os.environ.get("VERIF_TIER", "quick"), choices=["quick", "thorough"])
    ap.add_argument("--replay", default=None)
    a = ap.parse_args()
    seed = int(os.environ.get("VERIF_SEED", "1") or "1")
    if a.pid not in checks:
        print("unknown property", a.pid)
        sys.exit(2)
    ctx = Ctx(a.pid, a.tier, seed)
    ctx.replay = a.replay
    if a.replay:
        from checks import replay as _replay
        try:
            sys.exit(_replay.run(ctx, a.replay))
        except Infra as e:
            log("INFRA-FAILURE %s: %s" % (a.pid, e))
            sys.exit(2)
    try:
        rc = checks[a.pid](ctx)
    except Infra as e:
        if ctx.violations:
            # violations already established on the real code (judged by TLC) stand; what could not be completed
            # afterwards (for instance a binding self-test that finds no accepted record on a broken tree) is noted
            log("NOTE %s: the run could not be completed after the violations below had been established: %s" % (a.pid, e))
            ctx.notes.append("incomplete: %s" % e)
            sys.exit(ctx.finish("other", {
                "explanation": "run stopped after %d violation(s) had been established on the real code; not completed: %s"
                               % (len(ctx.violations), str(e)[:1500]),
                "samples": [v["key"] for v in ctx.violations[:5]], "exhaustive": False}, None))
        log("INFRA-FAILURE %s: %s" % (a.pid, e))
        sys.exit(2)
    sys.exit(rc)
