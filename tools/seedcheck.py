#!/usr/bin/env python3
"""tools/seedcheck.py <src-dir> <name> <PROP> [more PROPs...] [--tier quick]

<src-dir> holds patch.diff, a demonstration (demo_test.go or demo/main.go) and meta.json from a sub-agent.
1. confirms the mutant in a scratch worktree: suite passes with the patch, demo fails with it, passes without;
2. applies the patch to /repo, runs ./bin/check for the given properties, reverts /repo;
3. stores everything under /verif/seeded/<name>/ with the outcome in meta.json.
"""
import json
import os
import re
import shutil
import subprocess
import sys

ROOT = os.path.dirname(os.path.dirname(os.path.abspath(__file__)))
ENV = dict(os.environ, GOFLAGS="-mod=mod", GOPROXY="off", GOSUMDB="off", GOTOOLCHAIN="local")


def sh(cmd, cwd=None, timeout=1800):
    p = subprocess.run(cmd, cwd=cwd, env=ENV, shell=isinstance(cmd, str), stdout=subprocess.PIPE,
                       stderr=subprocess.STDOUT, text=True, timeout=timeout)
    return p.returncode, p.stdout


def demo_cmd(src, wt):
    """Place the demo in the worktree and return the command that runs it."""
    dt = os.path.join(src, "demo_test.go")
    if os.path.exists(dt):
        txt = open(dt).read()
        head = txt[:600]
        m = re.search(r"(?:[Pp]lace|[Cc]opy|put)[^\n]*?\s([\w./-]+_test\.go)", head)
        pkg = re.search(r"^package\s+(\w+)", txt, re.M).group(1)
        if m and "/" in m.group(1):
            rel = m.group(1)
        else:
            # guess the directory from the package name
            cands = subprocess.run("grep -rl --include=*.go '^package %s$' . | xargs -n1 dirname | sort -u" % pkg.replace("_test", ""),
                                   cwd=wt, shell=True, stdout=subprocess.PIPE, text=True).stdout.split()
            rel = os.path.join(cands[0], "zz_mutant_demo_test.go")
        rel = rel.lstrip("./")
        if rel.startswith("tmp/mut/"):
            rel = rel.split("/", 3)[3]
        dst = os.path.join(wt, rel)
        os.makedirs(os.path.dirname(dst), exist_ok=True)
        shutil.copy(dt, dst)
        tags = " -tags verif" if "go:build verif" in open(dt).read() else ""
        if re.search(r"go test[^\n]*\s-race\b", head):
            tags += " -race"
        return "go test -count=1%s ./%s/" % (tags, os.path.dirname(rel)), dst
    dm = os.path.join(src, "demo")
    if os.path.isdir(dm):
        dst = os.path.join(wt, "zz_mutant_demo")
        shutil.copytree(dm, dst)
        return "go run ./zz_mutant_demo", dst
    raise SystemExit("no demonstration found in " + src)


def main():
    args = [a for a in sys.argv[1:] if not a.startswith("--")]
    tier = "quick"
    if "--tier" in sys.argv:
        tier = sys.argv[sys.argv.index("--tier") + 1]
        args = [a for a in args if a != tier]
    src, name, props = args[0], args[1], args[2:]
    patch = os.path.join(src, "patch.diff")
    wt = "/tmp/seedcheck-wt"
    sh("git -C /repo worktree remove --force %s" % wt)
    shutil.rmtree(wt, ignore_errors=True)
    rc, out = sh("git -C /repo worktree add -q --detach %s HEAD" % wt)
    assert rc == 0, out
    res = {"confirmed": False}
    try:
        rc, out = sh("git apply %s" % patch, cwd=wt)
        if rc != 0:
            res["error"] = "patch does not apply: " + out[-500:]
            return finish(src, name, props, res, None)
        rc, out = sh("go build ./... && go test -count=1 ./...", cwd=wt)
        res["suite_with_patch"] = "pass" if rc == 0 else "FAIL"
        suite_tail = out[-800:]
        cmd, placed = demo_cmd(src, wt)
        rc1, out1 = sh(cmd, cwd=wt)
        res["demo_with_patch"] = "fails" if rc1 != 0 else "passes"
        sh("git apply -R %s" % patch, cwd=wt)
        rc2, out2 = sh(cmd, cwd=wt)
        res["demo_without_patch"] = "passes" if rc2 == 0 else "fails"
        res["demo_cmd"] = cmd
        res["confirmed"] = (res["suite_with_patch"] == "pass" and rc1 != 0 and rc2 == 0)
        if not res["confirmed"]:
            res["detail"] = {"suite": suite_tail, "with": out1[-800:], "without": out2[-800:]}
    finally:
        sh("git -C /repo worktree remove --force %s" % wt)
        shutil.rmtree(wt, ignore_errors=True)
    if not res["confirmed"]:
        return finish(src, name, props, res, None)
    # run the checks against /repo with the patch applied
    rc, out = sh("git -C /repo status --porcelain")
    assert out.strip() == "", "/repo is not clean: " + out
    rc, out = sh("git -C /repo apply %s" % patch)
    assert rc == 0, out
    outcomes = {}
    try:
        for p in props:
            rc, out = sh("./bin/check %s --tier %s" % (p, tier), cwd=ROOT, timeout=7200)
            viol = [l for l in out.splitlines() if l.startswith("VIOLATION")]
            outcomes[p] = {"exit": rc, "violations": len(viol),
                           "first": next((l for l in out.splitlines() if l.startswith("  ")), "")[:400],
                           "tail": out[-300:] if rc not in (0, 1) else ""}
    finally:
        sh("git -C /repo checkout -- .")
        sh("git -C /repo clean -fdq")
    return finish(src, name, props, res, outcomes)


def finish(src, name, props, res, outcomes):
    dst = os.path.join(ROOT, "seeded", name)
    os.makedirs(dst, exist_ok=True)
    for f in os.listdir(src):
        s = os.path.join(src, f)
        if os.path.isdir(s):
            shutil.copytree(s, os.path.join(dst, f), dirs_exist_ok=True)
        elif f != "property.txt":
            shutil.copy(s, dst)
    mp = os.path.join(dst, "meta.json")
    meta = json.load(open(mp)) if os.path.exists(mp) else {}
    meta["confirmation"] = res
    if outcomes is not None:
        meta["checks_run"] = outcomes
        meta["detected_by"] = [p for p, o in outcomes.items() if o["exit"] == 1]
    json.dump(meta, open(mp, "w"), indent=1)
    print(json.dumps({"name": name, "confirmed": res["confirmed"], "outcomes": outcomes,
                      "detail": res.get("detail"), "error": res.get("error")}, indent=1)[:3000])
    if not res["confirmed"]:
        shutil.rmtree(dst, ignore_errors=True)


if __name__ == "__main__":
    main()
