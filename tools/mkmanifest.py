#!/usr/bin/env python3
"""Regenerates MANIFEST.json from the table below (so it always validates)."""
import json
import os
import subprocess
import sys

ROOT = os.path.dirname(os.path.dirname(os.path.abspath(__file__)))
sys.path.insert(0, ROOT)
sys.path.insert(0, os.path.join(ROOT, "lib"))

TRACKER_NOTE = ("Trusted: TLC; the projection code in harness/l1 (maps concrete events/state to model vocabulary by "
                "exact equality with what the harness created); well-formedness premises of TrackerCore. "
                "Exhaustive only within the constants recorded in the evidence file.")

SSHD_NOTE = ("Trusted: TLC; the class generators and token substitution in harness/sshdvec; Go's encoding/json for "
             "normalising events. Coverage is field classes x seeds (evidence: evaluations / distinct_nontrivial).")

CHECKS = {
    "C01": dict(level="model_checking", ref="7/C01", technique="TLA+ spec (Tracker.tla) checked by TLC + TLC-generated histories replayed on the real tracker, recorded traces validated by TLC (TrackerTrace.tla)",
                text="TLC proves IdentityOK on the design for all well-formed histories within small constants; every edge of the abstract state graph and long simulated histories are replayed on the real sessionTracker and TLC evaluates IdentityOK on every recorded step.",
                note=TRACKER_NOTE),
    "C02": dict(level="model_checking", ref="7/C02", technique="TLA+ spec checked by TLC + trace validation of real executions",
                text="As C01 for ExactlyOnce (required events of a correlated session emitted exactly once, in order) at every prefix of every replayed history.",
                note=TRACKER_NOTE),
    "C04": dict(level="model_checking", ref="7/C04", technique="TLA+ spec checked by TLC + trace validation of real executions",
                text="As C01 for Silence (nothing emitted for null/unknown/uncorrelated sessions, nothing before both halves are known), checked after every step.",
                note=TRACKER_NOTE),
    "C09": dict(level="model_checking", ref="7/C09", technique="TLA+ spec checked by TLC (PID-reuse configuration) + trace validation of real executions",
                text="PID-reuse configuration (MaxRank=2): TLC proves identity/exactly-once/ended-released on the design; reuse histories (edge cover + simulation) are replayed on the real tracker and validated.",
                note=TRACKER_NOTE),
    "C14": dict(level="model_checking", ref="7/C14", technique="TLA+ spec checked by TLC + trace validation of real executions",
                text="RenderOK (outcome, args, session, type/component/timestamp/summary) and NotMutated evaluated by TLC on every recorded step for all result/args combinations.",
                note=TRACKER_NOTE),
    "C16": dict(level="model_checking", ref="7/C16", technique="TLA+ spec checked by TLC + trace validation of real executions with cut-offs between any two calls",
                text="Cleanup semantics with cut-offs placed between any two arrivals: StaleDropped and ExactlyOnce (nothing younger/correlated is discarded) on design and on the real tracker.",
                note=TRACKER_NOTE + " Real-time behaviour of the one-minute ticker is exercised only in the thorough tier."),
    "C06": dict(level="exploration", ref="7/C06", technique="TLA+ grammar/contract (SshdLog.tla) enumerated by TLC; vectors replayed on the real sshd processor; observations validated by TLC (SshdTrace.tla)",
                text="TLC enumerates every form x field-class combination with the exact expected event; each vector is concretised with seeded values, run through the real processor, and TLC compares the emitted event field by field. Exploration: classes x seeds, not all strings.",
                note=SSHD_NOTE),
    "C07": dict(level="exploration", ref="7/C07", technique="TLC-enumerated vectors delivered twice (direct / framed through the real syslog ingester and a real FIFO); TLC compares both observations",
                text="Every vector (grammar, hostile, mutants, noise, pid tokens) is delivered directly and as '<pid><pad><msg>\\n' through SyslogIngester.Process; TLC requires identical observations and, for grammar vectors, the exact expectation.",
                note=SSHD_NOTE),
    "C11": dict(level="exploration", ref="7/C11", technique="TLC-enumerated mutation operators/noise classes over the sshd grammar; universal post-condition evaluated by TLC on recorded observations",
                text="Mutants (truncation at every token, keyword changes, duplicated segments, splices), noise classes in every field position (NUL, invalid UTF-8, 20-70 kB) and odd PID tokens; TLC checks no panic/error, <=1 event, login only with a succeeded event, event only for keyword lines, fields are substrings.",
                note=SSHD_NOTE + " Arbitrary byte strings are reached only through noise classes and mutations."),
    "C17": dict(level="exploration", ref="7/C17", technique="TLC-enumerated hostile user-name classes x peer classes; recorded peer compared by TLC",
                text="Hostile names (spaces, ' from <addr> port <n>' fragments, keywords, 100 chars, quotes) in the three forms printing a client-chosen name; TLC requires one failed event whose source address/port are the appended ones.",
                note=SSHD_NOTE),
    "C19": dict(level="exploration", ref="7/C19", technique="counter deltas from a private registry per vector, contract evaluated by TLC",
                text="For every vector of C06/C11/C17 the counters of a private Prometheus registry are read after the line; TLC checks exactly one increment with matching outcome/method per emitted event and none for non-keyword lines.",
                note=SSHD_NOTE),
    "C03": dict(level="model_checking", ref="7/C03", technique="TLA+ lock-granularity spec (TrackerConc.tla) checked by TLC for linearizability; exhaustive controlled-schedule exploration of the same programs on the real tracker, outcomes validated by TLC (TrackerLin.tla); race detector",
                text="TLC checks every interleaving of the programs of TrackerConcMC at critical-section granularity (outcome at quiescence in the set of sequential outcomes, no lost wake-up, termination). The scheduling hook makes the harness the scheduler: all lock-level schedules of those programs are executed on the real tracker and TLC checks every distinct outcome against the sequential specification; free-running runs under -race.",
                note="Trusted: TLC, the controlled scheduler (harness/sched), the hook placement (one scheduling point before each instrumented lock acquisition and at the event encoder). Exhaustive for the listed programs; larger ones by bounded pre-emption/random schedules. The race detector only sees executed interleavings."),
    "C05": dict(level="model_checking", ref="7/C05", technique="TLA+ spec of the write/hand-off protocol (SshdProc.tla, TLC incl. liveness) + every environment script realised on the real processor and validated by TLC (SshdProcTrace.tla) + Login contract over all TLC-enumerated vectors",
                text="SshdProc.tla: all 54 environment scripts (write ok/fail x receiver ready/late/never x cancel never/before/while blocked) x interleavings satisfy at-most-once, write-before-send, error-on-failure, forwarded-unless-cancelled, progress. Each script is realised against the real processor with real lines; the recorded event sequence must be a behaviour of the spec. PID/credential/identity of the forwarded login are checked for every accepted-login vector.",
                note="Trusted: TLC; timing assumptions of the scenario harness (40 ms to call a worker blocked, 300 ms to call it stuck)."),
    "C18": dict(level="model_checking", ref="7/C18", technique="TLA+ spec (Health.tla) checked by TLC; sequential histories, exhaustive lock-level schedules and WaitForReady scripts on the real code validated by TLC (HealthTrace.tla)",
                text="TLC: every interleaving of status requests with registrations/ready-marks yields internally consistent, linearizable responses. All op sequences up to length 4 (6 thorough) over 3 names are replayed through the real handler; all schedules of four concurrent programs are executed on the real code; WaitForReady scripts.",
                note="Trusted: TLC, the controlled scheduler; WaitForReady observed with a 2 ms poll interval and 150 ms settle times."),
    "C12": dict(level="model_checking", ref="7/C12", technique="TLA+ spec of chunked pipe reading (Framing.tla) checked by TLC incl. termination; every TLC-enumerated scenario (stream x cuts x call-back error position) realised through a real FIFO and validated by TLC (FramingTrace.tla)",
                text="TLC: for every stream over {ordinary, binary, longer-than-buffer, delimiter} up to the bound, every partition into write calls, every read granularity and every call-back error position only whole terminated records are delivered, once, in order; delivery stops at the first error; EOF is returned. The same scenarios are written to a real FIFO (writer paced by FIONREAD so partial records are really seen) and the real Ingest's call-backs/return are compared by TLC.",
                note="Trusted: TLC; the symbol-to-bytes concretisation and decoding in harness/cmd/framing; FIONREAD pacing. Exhaustive up to stream length 4 (quick) / 5 (thorough) plus sampled longer streams."),
    "C08": dict(level="model_checking", ref="7/C08", technique="TLA+ spec of the daemon's workers, channels and errgroup (Pipeline.tla) checked by TLC for liveness under weak fairness; every fail-stop scenario (cause x load) run against the built binary and judged by TLC (PipelineTrace.tla)",
                text="TLC: any worker returning, or a signal, leads to all workers returned and process exit, for every interleaving with a flooding audit writer (and the pinned bare-send variant violates it). Scenarios (causes x idle / sustained audit load / pipes never opened / HTTP servers) are run against the binary built from the working tree with real FIFOs; exit status and time to exit are validated.",
                note="Trusted: TLC; the scenario driver (checks/pipeline.py); 5 s as 'bounded time'; Linux FIFO semantics."),
    "C13": dict(level="model_checking", ref="7/C13", technique="TLA+ spec (Pipeline.tla) checked by TLC: Cancel ~> Returned for every worker; every blocking situation realised on the real worker, cancelled, observation judged by TLC (PipelineTrace.tla)",
                text="TLC proves cancellation leads to return for the three workers in every reachable state (weak fairness). 24 blocking situations (opening, idle read, partial record, blocked hand-off with capacities 0/1/4/64, full buffer, flood; select loop idle/busy/with pending login) are established on the real workers with real FIFOs; return within 2 s, error reported, nothing delivered after return.",
                note="Trusted: TLC; the state-establishing logic of harness/cmd/workers (FIONREAD, channel lengths); wall-clock bounds."),
    "C20": dict(level="model_checking", ref="7/C20", technique="TLA+ spec of the directory reader (DirReader.tla: real offset/lastSz algorithm next to the ideal) checked by TLC; every scenario replayed on the real LogDirReader (in-memory fs through the verif constructor, real files for the initial order) and judged by TLC (DirReaderTrace.tla)",
                text="TLC: for every sequence of append / partial append / complete / rotate / truncate / create up to the bound over eight initial directory contents (incl. 12 rotations and suffixes up to 999) the modelled tailing algorithm delivers exactly the ideal sequence; the two pinned variants are rejected. All scenarios are replayed on the real reader with lines shorter and longer than the read buffer; delivered lines are compared by TLC with the ideal.",
                note="Trusted: TLC; the in-memory file system and event scripting of harness/cmd/dirreaderh; 'each event processed before the next change' is enforced by a barrier event."),
    "C15": dict(level="model_checking", ref="7/C15", technique="TLA+ model of parser + reassembler (as used) + call-back (ReasmCore/ReasmGen.tla) checked by TLC over all event shapes x record interleavings x faults; every scenario realised through the real Auditd.Read and judged by TLC (ReasmTrace.tla)",
                text="TLC enumerates kernel events of four shapes, every interleaving of their records that preserves per-event order, and one fault (malformed line at any position, failing write at the k-th event, invalid login or LOGIN record with unparsable pid at any point) and checks grouping / at-most-once / nothing-silently-skipped on the model. Each scenario is fed line by line (with barriers) to the real Auditd.Read; the events at the encoder (grouping by EXECVE arguments), Read's return value and whether the error names the offending line are validated by TLC.",
                note="Trusted: TLC; harness/cmd/reasm's barrier technique (empty line after each record) and error classification by message; go-libaudit's time-out/overflow paths are not modelled."),
    "C10": dict(level="model_checking", ref="7/C10", technique="TLA+ specs (SshdProc.tla: event written before the login exists; Pipeline.tla) checked by TLC; TLC-simulated multi-session histories fed concurrently to the built daemon through both FIFOs under strace; the output file and the write(2) calls validated by TLC (TrackerTrace.tla: CausalOrder, WholeLines, LoginLinesOnce, ExactlyOnce, Identity, Silence)",
                text="Design: TLC proves the hand-off never precedes the event write (all scripts/interleavings). Implementation: histories with up to six concurrent sessions (TLC -simulate) are turned into sshd and audit lines and written in concurrent bursts to the real FIFOs of the built binary; strace shows every event is exactly one write(2) of exactly one line; TLC checks on the file's line sequence that each UserLogin precedes every UserAction with its identity, no login line is missing or doubled, and per session the required events appear exactly once in order with the right identity.",
                note="Trusted: TLC; Linux atomicity of one write(2) on an O_APPEND file; strace's view of the writes; the L3 projection in harness/cmd/l3. Schedules are whatever the OS produces (not controlled) over seeded input scripts."),
}

# additions to the texts above (legs added while testing the checks against seeded changes)
MORE = {
    "C03": " Programs P11/P12 have program order inside a thread (a delivery, then the cleanup); the daemon's own wiring of the correlator is exercised by handing both halves of six sessions per round to Auditd.Read at the same moment from two goroutines (free running, 400 / 4000 rounds), judged by TrackerTrace. Sequential orders must respect the real-time precedence observed in each execution (linearizability, not only sequential consistency).",
    "C01": " The same histories (without cleanup) also go through Auditd.Read as real audit log lines (L2) and, as two concurrent input scripts, through the built daemon (L3).",
    "C02": " L2 (Auditd.Read, real log lines) and L3 (built daemon) legs as for C01; PID-reuse histories; hold queues of 300 (thorough 1100) events flushed mid-session and after the session's end; many sessions in one cleanup pass.",
    "C04": " L2 and L3 legs as for C01, with null sessions, unparsable PIDs and invalid logins; PID-reuse histories; silence also while Auditd.Read shuts down with a login-less session holding events.",
    "C05": " CountedOnce is part of the model. Through the whole worker (FIFO, ingesters, processor) a login blocked in the hand-off for 6.5 s while the correlator is busy must still be delivered; on one long-lived processor a login handed over earlier keeps its event (StreamLoginStable).",
    "C06": " Every line is also delivered to ONE long-lived processor (StreamExact); every second concretisation keeps half of the previous values; a third of the lines is delivered twice in a row; three short runs of the built daemon (NODE_NAME set / empty / unset) check that every event carries this node's name and machine id.",
    "C07": " Also through a real FIFO and the whole ingester chain; audit record lines with and without their newline.",
    "C08": " 30 scenarios now: also partial EOF, unknown record type, the output breaking with events in flight (complete head event / staggered 2 s time-outs), and --healthz --metrics --audit-metrics with a busy port; signals while the events output does not exist yet; the model has the HTTP and audit-metrics workers.",
    "C09": " Histories include the login of the reused PID overtaking the end of the earlier session (the two pipes are independent); every other login is anonymous; 1 100 events held, the session ended and the PID used again; L2 leg through Auditd.Read.",
    "C10": " Four daemons run side by side; every other run appends to a file that already holds the lines of an earlier run, which must stay intact; bursts of failed logins in the sshd script.",
    "C11": " Also head-in-front duplications; every line also on one long-lived processor (StreamUniversal).",
    "C12": " A sample of the scenarios is run again with 150 ms (thorough: also 1.1 s) of silence after every write call; now and then a record is longer than 64 KiB.",
    "C13": " 30+ blocking situations, each cancelled at once and after a 2.6 s stall; also: the pipe's path removed or replaced while waiting for a writer, an event still being assembled (flushed before Read returns), the worker inside the event write, the flush on the way out with a failing output, 1 500 lines queued behind a write in progress (the queue is left alone).",
    "C14": " L2 leg against aucoalesce's own view of the same records; record groups include CONFIG_CHANGE-first events and a rename over an existing target (five PATH records, PARENT entries).",
    "C15": " Delivery modes: stepwise, as a backlog in a buffered channel, and with the failure reported while Read is busy in RemoteLogin; malformed-line classes; persistent output failures; a sample of three-event scenarios; the audit-log ingester with a full line channel loses no line (worker scenario sendingthrough, PipelineTrace).",
    "C16": " Histories with 24 / 40 sessions or logins in ONE cleanup pass (all stale, all correlated, half and half). Staleness.tla models the ticker phase against arrival times; the thorough tier runs Auditd.Read in real time (its own one-minute ticker; with filler logins and on a quiet host) and validates the runs with StalenessTrace.tla.",
    "C17": " Names imitating whole other messages, grammar-fragment walks, [preauth] suffixes and phrases of unhandled sshd messages; also on one long-lived processor.",
    "C18": " A probe request after the last thread of every program (an answer computed during the concurrent part must not outlive it); writing the status line and the body are scheduling points; 210 WaitForReady scripts incl. registrations after the wait started and re-registration after 'seen ready', each followed by a second wait on the same object; waits whose context was cancelled before they started.",
    "C19": " Counters are read from a fresh registry per line AND from one long-lived registry for the whole run (StreamCounter, repeats, twins), every third record with the package logger at debug level; the 54 worker scripts of SshdProc log the counter (CountedOnce: an emitted event is counted exactly once whether the hand-off completed or was abandoned).",
    "C20": " Long lines are 10 000 bytes (their unterminated first half alone exceeds the read buffer); operation prune: an event for a sibling of the live file outside a rotation.",
}
for _p, _t in MORE.items():
    CHECKS[_p]["text"] += _t

ALL = ["C%02d" % i for i in range(1, 21)]


def main():
    from checks import REGISTRY
    commits = subprocess.run(["git", "-C", "/repo", "log", "--format=%h %s"], stdout=subprocess.PIPE,
                             text=True).stdout.splitlines()
    hooks = [c.split()[0] for c in commits if "verif hook" in c]
    checks = []
    for pid in ALL:
        if pid not in CHECKS or pid not in REGISTRY:
            continue
        c = CHECKS[pid]
        checks.append({
            "property_id": pid,
            "quick_cmd": "./bin/check %s --tier quick" % pid,
            "thorough_cmd": "./bin/check %s --tier thorough" % pid,
            "evidence_file": "/verif/evidence/%s.json" % pid,
            "replay_cmd_template": "./bin/check %s --replay {path}" % pid,
            "engine": "tlc+harness",
            "level_claimed": {"category": c["level"], "text": c["text"], "design_ref": "DESIGN.md section " + c["ref"]},
            "level_note": c["note"],
            "technique": c["technique"],
        })
    na = [{"property_id": p, "reason": "check not built yet (work in progress; see DESIGN.md section 11)"}
          for p in ALL if p not in CHECKS or p not in REGISTRY]
    m = {
        "version": 1,
        "setup_cmd": "./bin/setup",
        "hooks": {
            "guard": "verif",
            "enable": "go build/test -tags verif (harness module /verif/harness with replace => /repo)",
            "baseline_off_cmd": "cd /repo && go test -vet=off -count=1 ./...",
            "source_commits": hooks,
            "add_only": True,
        },
        "engines": [
            {"name": "tlc+harness", "path": "/verif/bin/check", "serves_properties": [c["property_id"] for c in checks],
             "kind_free_text": "TLA+ specifications in /verif/specs checked by TLC; Go conformance harness in /verif/harness "
                               "(replay of TLC-generated histories/scenarios on the real code, traces validated by TLC)"},
        ],
        "checks": checks,
        "not_applicable": na,
        "notes": "See DESIGN.md. known_findings.json lists repaired defects (status fixed) and open findings (status known).",
    }
    with open(os.path.join(ROOT, "MANIFEST.json"), "w") as f:
        json.dump(m, f, indent=1)
    print("MANIFEST.json: %d checks, %d not_applicable" % (len(checks), len(na)))


if __name__ == "__main__":
    main()
