#!/usr/bin/env python3
"""Print the markdown table of the seeded changes of rounds 2+ from /verif/seeded/*/meta.json (for DESIGN.md §11)."""
import json
import os
import re
import sys

ROOT = os.path.dirname(os.path.dirname(os.path.abspath(__file__)))


def short(txt, n):
    txt = re.sub(r"\s+", " ", txt or "").strip()
    return txt if len(txt) <= n else txt[: n - 1].rsplit(" ", 1)[0] + " …"


def main():
    rows = []
    for name in sorted(os.listdir(os.path.join(ROOT, "seeded")),
                       key=lambda n: (int(re.match(r"R(\d+)", n).group(1)) if re.match(r"R(\d+)", n) else 0, n)):
        if not re.match(r"R([2-9]|1[0-9])-", name):
            continue
        mp = os.path.join(ROOT, "seeded", name, "meta.json")
        if not os.path.exists(mp):
            continue
        m = json.load(open(mp))
        det = m.get("detected_by") or []
        runs = m.get("checks_run") or {}
        extra = m.get("detected_note", "")
        cell = ", ".join(det) if det else "—"
        missed = [p for p in runs if p not in det]
        if missed and det:
            cell += " (not: %s)" % ", ".join(missed)
        if extra:
            cell += " " + extra
        rows.append("| `%s` | %s | %s | %s |" % (name, short(m.get("summary", ""), 230).replace("|", "/"),
                                                short(m.get("needs", ""), 200).replace("|", "/"), cell))
    print("| change | what was changed | needs | detected by (quick tier unless noted) |")
    print("|---|---|---|---|")
    print("\n".join(rows))


if __name__ == "__main__":
    main()
