"""C03: TrackerConc.tla (lock granularity, TLC: every interleaving of the programs of TrackerConcMC is
linearizable w.r.t. TrackerCore's sequential semantics, terminates, no lost wake-up) + the same programs
executed schedule by schedule on the REAL tracker by the controlled scheduler (harness/sched), every distinct
outcome validated by TLC (TrackerLin.tla) + free-running runs under the race detector."""
import json
import os
import subprocess

import vlib
from vlib import Infra
from checks import sshdfam

PROGS = ["P1", "P2", "P3", "P4", "P5", "P6", "P9", "P10", "P11", "P12"]
BIG = ["P7", "P8"]


def run(ctx):
    names = PROGS + ([] if ctx.quick else BIG)
    states = trans = 0
    first = None
    for n in names:
        r = ctx.tlc("TrackerConcMC", "TrackerConc_%s.cfg" % n, timeout=900, name="conc-" + n)
        states += r["distinct"]
        trans += r["generated"]
        first = first or r
    vac = ctx.tlc("TrackerConcMC", "TrackerConc_P1.cfg", timeout=300, expect="violation", name="conc-vacuity",
                  overrides={"TrackerMutex": "FALSE"})
    progs = vlib.tlc_prints(first["stdout"], "PROGS")[0]
    progs = [p for p in progs if p["name"] in names]
    pp = ctx.path("progs.jsonl")
    with open(pp, "w") as f:
        for p in progs:
            f.write(json.dumps(p) + "\n")
    binp = ctx.go_build("./cmd/trackerconc")
    tp = ctx.path("outcomes.ndjson")
    cap = 60000 if ctx.quick else 400000
    cmd = [binp, "-in", pp, "-out", tp, "-seed", str(ctx.seed), "-cap", str(cap),
           "-random", "300" if ctx.quick else "20000", "-budget", "45s" if ctx.quick else "20m"]
    p = ctx.run(cmd, timeout=3000)
    stats = json.loads(p.stdout.strip().splitlines()[-1])
    bad, nlines, vstates = sshdfam.validate(ctx, tp, "lin", parts=1, module="TrackerLin", cfg="TrackerLin.cfg")
    recs = [json.loads(l) for l in open(tp)]
    for b in bad:
        if b["what"] == "StateDiverges":
            continue
        r = b["rec"]
        ctx.violation("%s/%s" % (b["what"], r["name"]),
                      "%s: program %s, %d schedule(s) of the real tracker end with outs=%s sessions=%s waiting=%s "
                      "(deadlock=%s hang=%s panic=%r); no sequential order of the calls produces that; schedule %s"
                      % (b["what"], r["name"], r["count"],
                         [(o["sess"], o["tag"], o["id"]) for o in r["outs"]],
                         (r["st"] or {}).get("sess"), (r["st"] or {}).get("wait"), r["deadlock"], r["hang"],
                         r["panic"], r["sched"]),
                      {"kind": "schedule", "program": r["name"], "threads": r["threads"], "post": r.get("post", []),
                       "schedule": r["sched"],
                       "outcome": {"outs": r["outs"], "st": r["st"]}, "lock_trace": r.get("trace")})
    div = [b for b in bad if b["what"] == "StateDiverges"]
    if div and not [b for b in bad if b["what"] != "StateDiverges"]:
        ctx.notes.append("final tracker state of %d outcome(s) differs from every sequential order (diagnostic)" % len(div))
    # race detector, free running
    racebin = ctx.go_build("./cmd/trackerconc", race=True)
    rp = ctx.path("race.ndjson")
    env = vlib.goenv()
    env["GORACE"] = "halt_on_error=0 exitcode=66"
    reps = 300 if ctx.quick else 5000
    pr = subprocess.run(["timeout", "-k", "10", "1500", racebin, "-in", pp, "-out", rp, "-free", str(reps)],
                        env=env, stdout=subprocess.PIPE, stderr=subprocess.PIPE, text=True)
    nraces = pr.stderr.count("WARNING: DATA RACE")
    if pr.returncode not in (0, 66):
        raise Infra("race run failed (%d): %s" % (pr.returncode, pr.stderr[-2000:]))
    if nraces or pr.returncode == 66:
        ctx.violation("DataRace", "the race detector reports %d data race(s) in free-running executions of the programs:\n%s"
                      % (nraces, pr.stderr[:1500]), {"kind": "race", "report": pr.stderr[:6000]})
    rbad, _, _ = sshdfam.validate(ctx, rp, "linrace", parts=1, module="TrackerLin", cfg="TrackerLin.cfg")
    for b in rbad:
        if b["what"] != "StateDiverges":
            r = b["rec"]
            ctx.violation("%s/%s/free" % (b["what"], r["name"]),
                          "%s in free-running execution of %s (%d times): outs=%s" % (
                              b["what"], r["name"], r["count"], [(o["sess"], o["tag"], o["id"]) for o in r["outs"]]),
                          {"kind": "free-run", "program": r["name"], "threads": r["threads"], "outcome": r["outs"]})
    # the correlator as the daemon wires it: both halves of a session handed to Auditd.Read at the same moment from two
    # goroutines (Logins channel into Read's loop / Audits channel into the parser and reassembler goroutines); free
    # running, many repetitions, judged by TrackerTrace at the end of every round
    from checks import tracker
    sb = ctx.go_build("./cmd/l2stress")
    stp = ctx.path("trace-l2stress.ndjson")
    rounds = 400 if ctx.quick else 4000
    sp2 = ctx.run([sb, "-out", stp, "-seed", str(ctx.seed), "-rounds", str(rounds)], timeout=1800)
    sst = json.loads(sp2.stdout.strip().splitlines()[-1])
    shs = tracker.split_trace(stp)
    sbad, _, _ = tracker.validate(ctx, shs, "l2stress", cfg="TrackerTraceL2.cfg")
    seen_w = set()
    for hidx, line, what in sbad:
        if what not in ("ExactlyOnce", "Identity", "Silence", "NoPanic") or what in seen_w:
            continue
        seen_w.add(what)
        recs2 = tracker.hist_of(shs[hidx])
        n = len({h for h, _, w in sbad if w == what})
        ctx.violation("Wiring/%s" % what,
                      "%s violated in %d of %d rounds in which the login and the LOGIN record of six sessions were handed to "
                      "Auditd.Read at the same moment from two goroutines; e.g. emitted %s" % (
                          what, n, rounds, [(o["sess"], o["tag"], o["id"]) for o in recs2[-1].get("outs", [])]),
                      {"kind": "l2-concurrent-round", "round": hidx, "calls": recs2[1:-1], "observed": recs2[-1]})
    # binding self-test
    muts = []
    badkeys = {json.dumps([b["rec"]["name"], b["rec"]["outs"]], sort_keys=True) for b in bad}
    for r in recs:
        if json.dumps([r["name"], r["outs"]], sort_keys=True) in badkeys:
            continue        # corrupt only ACCEPTED outcomes
        if r["outs"] and len(muts) < 6:
            a = json.loads(json.dumps(r)); a["outs"][0]["id"] += 1; muts.append(a)
            b = json.loads(json.dumps(r)); b["outs"].append(dict(b["outs"][0])); muts.append(b)
            c = json.loads(json.dumps(r)); c["outs"] = c["outs"][1:]; muts.append(c)
    mp = ctx.path("outcomes-selftest.ndjson")
    with open(mp, "w") as f:
        for i, m in enumerate(muts):
            m["prog"] = i
            f.write(json.dumps(m) + "\n")
    mbad, _, _ = sshdfam.validate(ctx, mp, "linself", parts=1, module="TrackerLin", cfg="TrackerLin.cfg")
    if muts and len({b["prog"] for b in mbad if b["what"] == "Linearizable"}) != len(muts):
        raise Infra("binding self-test: corrupted outcomes accepted by TrackerLin")
    return {
        "states": states, "transitions": trans,
        "traces_validated_against_impl": stats["schedules"] + len(progs) * reps,
        "samples": [{"program": r["name"], "threads": [[("%s(%s)" % (c["k"], c.get("sess") or c.get("pid"))) for c in th]
                                                        for th in r["threads"]],
                     "schedule": r["sched"], "outs": [(o["sess"], o["tag"], o["id"]) for o in r["outs"]],
                     "schedules_with_this_outcome": r["count"]} for r in recs[:3]],
        "schedules_executed": stats["schedules"], "per_program": stats["per_program"],
        "deadlock_verdicts_not_reproduced": stats.get("deadlock_verdicts_not_reproduced", 0),
        "concurrent_pairs_through_Auditd_Read": sst["pairs"],
        "distinct_outcomes": len(recs), "free_running_race_runs": len(progs) * reps, "data_races": nraces,
        "vacuity_guard": "TrackerMutex=FALSE violates %s" % vac["violated"],
        "binding_selftest_mutants_rejected": len(muts),
        "checker_cmd": first["cmd"], "exhaustive": all(p["exhaustive"] for p in stats["per_program"]),
    }


ASSUME = [
    "scheduling points are the instrumented lock acquisitions (tracker mutex, both GenericSyncMaps) and the event "
    "encoder; code between two scheduling points runs atomically in the controlled runs",
    "data races are looked for by the Go race detector in free-running executions (not exhaustive)",
    "programs are those of TrackerConcMC.tla; larger programs are explored with bounded pre-emption and random schedules",
]
