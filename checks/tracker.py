"""Correlator family: C01 C02 C04 C09 C14 C16 (and the L1 legs other checks reuse).

Flow of one check (see DESIGN.md section 4):
  1. TLC, exhaustive, on specs/Tracker.tla: the properties hold on the design for every
     well-formed history within the bounds; a seeded-bug configuration must be rejected
     (vacuity guard).
  2. TLC generates histories: the edge cover of the abstract state graph (every
     (state shape, action) pair, reached by a shortest history) and long weighted random
     histories (specs/TrackerSim.tla, -simulate).
  3. harness/cmd/trackerl1 replays every history on the REAL sessionTracker and records
     calls, emitted events (projected) and stored state (VerifSnapshot).
  4. TLC validates the recorded traces with specs/TrackerTrace.tla: every property is
     evaluated on (inputs, observed outputs) after every step; stepwise refinement of
     Tracker's sequential semantics is reported as a diagnostic.
  5. binding self-test: a corrupted copy of an accepted trace must be rejected.
Verdicts come only from step 4 on real executions.
"""
import json
import os
import random
import shutil
import subprocess

import vlib
from vlib import Infra, log

MON = {
    "C01": ["Identity", "NoPanic"],
    "C02": ["ExactlyOnce", "NoPanic"],
    "C04": ["Silence", "NoPanic"],
    "C09": ["Identity", "ExactlyOnce", "Silence", "NoPanic"],
    "C14": ["Render", "NotMutated", "Identity", "NoPanic"],
    "C16": ["StaleDropped", "ExactlyOnce", "NoPanic"],
}

# constant overrides per property: (mc quick, mc thorough, export quick, export thorough, sim)
BASE = {"Pids": "{1, 2}", "Sessions": '{"s1", "s2"}', "MaxRank": "1", "MaxT": "1", "MaxClean": "1",
        "ResSet": '{"success"}', "ArgsSet": "{FALSE}", "WithBad": "FALSE",
        "AuditSessions": '{"s1", "s2", "unset"}', "MaxLogins": "2", "PathDepth": "1"}


def _o(**kw):
    d = dict(BASE)
    d.update({k: str(v) for k, v in kw.items()})
    return d


CONF = {
    "C01": dict(
        mc_q=_o(MaxEv=4), mc_t=_o(MaxEv=5),
        ex_q=_o(MaxEv=4), ex_t=_o(MaxEv=6, Pids="{1, 2, 3}", Sessions='{"s1", "s2", "s3"}',
                                   AuditSessions='{"s1", "s2", "s3", "unset"}', MaxLogins=3),
        sim=dict(MaxRank="1")),
    "C02": dict(
        mc_q=_o(MaxEv=4), mc_t=_o(MaxEv=5),
        ex_q=_o(MaxEv=5), ex_t=_o(MaxEv=7),
        sim=dict(MaxRank="1")),
    "C04": dict(
        mc_q=_o(MaxEv=4, AuditSessions='{"s1", "s2", "unset"}'),
        mc_t=_o(MaxEv=5, AuditSessions='{"s1", "s2", "unset", ""}'),
        ex_q=_o(MaxEv=3, AuditSessions='{"s1", "s2", "unset", ""}', WithBad="TRUE"),
        ex_t=_o(MaxEv=6, AuditSessions='{"s1", "s2", "unset", ""}', WithBad="TRUE"),
        sim=dict(MaxRank="1")),
    "C09": dict(
        mc_q=_o(MaxEv=6, Pids="{1}", MaxRank=2, MaxT=0, MaxClean=0, AuditSessions='{"s1", "s2"}'),
        mc_t=_o(MaxEv=6, Pids="{1, 2}", MaxRank=2, MaxT=0, MaxClean=0, MaxLogins=3, AuditSessions='{"s1", "s2"}'),
        ex_q=_o(MaxEv=7, Pids="{1}", MaxRank=2, MaxT=0, MaxClean=0, AuditSessions='{"s1", "s2"}'),
        ex_t=_o(MaxEv=8, Pids="{1, 2}", MaxRank=2, MaxT=1, MaxClean=1, MaxLogins=3,
                Sessions='{"s1", "s2", "s3"}', AuditSessions='{"s1", "s2", "s3"}'),
        sim=dict(MaxRank="2", Pids="{1, 2}", MaxLogins="8")),
    "C14": dict(
        mc_q=_o(MaxEv=3, ResSet='{"success", "fail", "unknown"}', ArgsSet="{FALSE, TRUE}", MaxClean=0, MaxT=0),
        mc_t=_o(MaxEv=4, ResSet='{"success", "fail", "unknown"}', ArgsSet="{FALSE, TRUE}", MaxClean=0, MaxT=0),
        ex_q=_o(MaxEv=4, ResSet='{"success", "fail", "unknown"}', ArgsSet="{FALSE, TRUE}", MaxClean=0, MaxT=0),
        ex_t=_o(MaxEv=5, ResSet='{"success", "fail", "unknown"}', ArgsSet="{FALSE, TRUE}", MaxClean=0, MaxT=0),
        sim=dict(MaxRank="1")),
    "C16": dict(
        mc_q=_o(MaxEv=3, MaxT=2, MaxClean=2), mc_t=_o(MaxEv=4, MaxT=2, MaxClean=2),
        ex_q=_o(MaxEv=4, MaxT=2, MaxClean=2), ex_t=_o(MaxEv=5, MaxT=3, MaxClean=3),
        sim=dict(MaxRank="1", MaxT="8", MaxClean="8")),
}


def hist_lines(ctx, res):
    return vlib.tlc_prints(res["stdout"], "HIST")


def gen_histories(ctx, prop):
    """Step 2: TLC generates the histories."""
    conf = CONF[prop]
    ex = ctx.tlc("Tracker", "Tracker_export.cfg", workers=1, timeout=900,
                 overrides=conf["ex_q" if ctx.quick else "ex_t"], name="export")
    edge = hist_lines(ctx, ex)
    # drop histories that only differ from another one by being its prefix-free duplicate
    seen, uniq = set(), []
    for h in edge:
        k = json.dumps(h, sort_keys=True)
        if k not in seen:
            seen.add(k)
            uniq.append(h)
    if prop in ("C01", "C02", "C04"):
        # the same monitors also over the PID-reuse histories of C09 (a pid used again after - or, for the login,
        # while - its earlier session ends): identity / exactly-once / silence do not stop at the first use of a pid
        ex2 = ctx.tlc("Tracker", "Tracker_export.cfg", workers=1, timeout=900,
                      overrides=CONF["C09"]["ex_q" if ctx.quick else "ex_t"], name="export-reuse")
        for h in hist_lines(ctx, ex2):
            k = json.dumps(h, sort_keys=True)
            if k not in seen:
                seen.add(k)
                uniq.append(h)
    nsim = 150 if ctx.quick else 1500
    depth = 400 if ctx.quick else 700
    simov = dict(conf["sim"])
    if not ctx.quick:
        simov.setdefault("MaxEv", "120")
    sim = ctx.tlc("TrackerSim", "TrackerSim.cfg", workers=1, timeout=900, simulate="num=%d" % nsim,
                  depth=depth, overrides=simov, name="sim")
    simh = hist_lines(ctx, sim)
    # deep histories: few sessions, long hold queues and long emitted streams
    deepov = dict(simov)
    deepov.update({"Pids": "{1, 2}", "Sessions": '{"s1", "s2"}', "AuditSessions": '{"s1", "s2"}',
                   "MaxEv": "160" if ctx.quick else "400", "MaxLogins": "4" if deepov.get("MaxRank") == "2" else "2",
                   "WithBad": "FALSE"})
    deep = ctx.tlc("TrackerSim", "TrackerSim.cfg", workers=1, timeout=900, simulate="num=%d" % (16 if ctx.quick else 120),
                   depth=1200 if ctx.quick else 3000, overrides=deepov, name="sim-deep")
    simh += hist_lines(ctx, deep)
    if len(uniq) < 10 or len(simh) < nsim // 2:
        raise Infra("history generation produced too little (%d edge, %d sim)" % (len(uniq), len(simh)))
    return uniq, simh, ex, sim


def wide_histories(n):
    """Many sessions at once (far beyond the exhaustive bounds): n LOGIN records, a cleanup pass that finds all of them
    stale, then the logins; n parked logins, a cleanup pass, then the LOGIN records; and n sessions correlated before the
    pass (nothing of them may be dropped).  One cleanup pass handles them all."""
    def A(tag, s, typ, pid, at):
        return {"k": "audit", "tag": tag, "sess": s, "typ": typ, "pid": pid, "res": "success", "args": False, "at": at}

    def L(i, p, at):
        return {"k": "login", "id": i, "pid": p, "at": at}
    S = ["s%d" % i for i in range(1, n + 1)]
    h1 = [A(i + 1, S[i], "LOGIN", i + 1, 0) for i in range(n)] + [{"k": "tick"}, {"k": "cleanS", "c": 1}] \
        + [L(i + 1, i + 1, 1) for i in range(n)] + [A(n + i + 1, S[i], "OTHER", 0, 1) for i in range(n)]
    h2 = [L(i + 1, i + 1, 0) for i in range(n)] + [{"k": "tick"}, {"k": "cleanL", "c": 1}] \
        + [A(i + 1, S[i], "LOGIN", i + 1, 1) for i in range(n)] + [A(n + i + 1, S[i], "OTHER", 0, 1) for i in range(n)]
    h3 = [x for i in range(n) for x in (A(i + 1, S[i], "LOGIN", i + 1, 0), L(i + 1, i + 1, 0))] \
        + [{"k": "tick"}, {"k": "cleanS", "c": 1}, {"k": "cleanL", "c": 1}] + [A(n + i + 1, S[i], "OTHER", 0, 1) for i in range(n)]
    # half of them stale, half young: the pass keeps exactly the young ones
    m = n // 2
    h4 = [A(i + 1, S[i], "LOGIN", i + 1, 0) for i in range(m)] + [{"k": "tick"}] \
        + [A(i + 1, S[i], "LOGIN", i + 1, 1) for i in range(m, n)] + [{"k": "cleanS", "c": 1}] \
        + [L(i + 1, i + 1, 1) for i in range(n)] + [A(n + i + 1, S[i], "OTHER", 0, 1) for i in range(n)]
    return [h1, h2, h3, h4]


def long_queue_histories(k):
    """One session with k events held before its login arrives: mid-session (more events follow) and after the session
    has ended.  Every held event is flushed, once, in order, before anything newer."""
    def A(tag, typ, pid=0, sess="s1"):
        return {"k": "audit", "tag": tag, "sess": sess, "typ": typ, "pid": pid, "res": "success", "args": False, "at": 0}
    held = [A(1, "LOGIN", 1)] + [A(t, "OTHER") for t in range(2, k + 1)]
    login = {"k": "login", "id": 1, "pid": 1, "at": 0}
    mid = held + [login] + [A(t, "OTHER") for t in range(k + 1, k + 6)] + [A(k + 6, "CRED_DISP")]
    ended = held + [A(k + 1, "CRED_DISP"), login]
    # ... and then the PID is used again: the new session gets the new login, not what the long one left behind
    reuse = ended + [A(k + 2, "LOGIN", 1, "s2"), {"k": "login", "id": 2, "pid": 1, "at": 0}, A(k + 3, "OTHER", 0, "s2"),
                     A(k + 4, "CRED_DISP", 0, "s2")]
    return [mid, ended, reuse]


def write_hists(path, hists):
    with open(path, "w") as f:
        for h in hists:
            f.write(json.dumps(h, separators=(",", ":")) + "\n")


def replay_l1(ctx, binp, hists, name):
    hp = ctx.path("hists-%s.jsonl" % name)
    tp = ctx.path("trace-%s.ndjson" % name)
    write_hists(hp, hists)
    p = ctx.run([binp, "-in", hp, "-out", tp, "-seed", str(ctx.seed)], timeout=900)
    stats = json.loads(p.stdout.strip().splitlines()[-1])
    return tp, stats


def split_trace(trace_path):
    """-> list of histories, each a list of raw lines (first line is the reset record)."""
    hs, cur = [], None
    with open(trace_path) as f:
        for line in f:
            if line.startswith('{"h":') or '"k":"reset"' in line[:40]:
                cur = [line]
                hs.append(cur)
            else:
                cur.append(line)
    return hs


def validate(ctx, hs, name, cfg="TrackerTrace.cfg", module="TrackerTrace", parts=None, overrides=None,
             timeout=1200):
    """Step 4: TLC validates recorded histories (lists of raw ndjson lines). Returns (bad, div, done)
    where bad = list of (hist, line, prop)."""
    parts = parts or max(1, min(vlib.NCPU - 2, len(hs) // 20 + 1))
    buckets = [[] for _ in range(parts)]
    sizes = [0] * parts
    for hh in sorted(hs, key=len, reverse=True):
        i = sizes.index(min(sizes))
        buckets[i].append(hh)
        sizes[i] += len(hh)
    procs = []
    for i, b in enumerate(buckets):
        if not b:
            continue
        d = ctx.path("val-%s-%d" % (name, i))
        shutil.rmtree(d, ignore_errors=True)
        os.makedirs(d)
        for f in os.listdir(vlib.SPECS):
            if f.endswith(".tla") or f == cfg:
                shutil.copy(os.path.join(vlib.SPECS, f), d)
        if overrides:
            import re
            p = os.path.join(d, cfg)
            txt = open(p).read()
            for k, v in overrides.items():
                txt = re.sub(r"(?m)^(\s*%s\s*=\s*).*$" % re.escape(k), lambda m: m.group(1) + v, txt)
            open(p, "w").write(txt)
        with open(os.path.join(d, "trace.ndjson"), "w") as f:
            for hh in b:
                f.writelines(hh)
        cmd = ["timeout", "-k", "10", str(timeout), "tlc", "-workers", "1", "-metadir", os.path.join(d, "md"),
               "-config", cfg, module + ".tla"]
        fo = open(os.path.join(d, "stdout.txt"), "w")
        env = dict(os.environ)
        env["JAVA_TOOL_OPTIONS"] = "-Xss64m -Xmx3g -XX:ParallelGCThreads=2"
        procs.append((d, subprocess.Popen(cmd, cwd=d, stdout=fo, stderr=subprocess.STDOUT, env=env), fo,
                      sum(len(x) for x in b)))
    bad, div, done = [], [], {"lines": 0, "steps": 0, "bad": 0, "div": 0}
    states = 0
    for d, p, fo, nlines in procs:
        rc = p.wait()
        fo.close()
        outp = os.path.join(d, "stdout.txt")
        if rc in (124, 137):
            raise Infra("trace validation timed out (%s)" % d)
        dn = vlib.tlc_prints(outp, "DONE")
        if not dn or dn[-1]["lines"] != nlines:
            raise Infra("trace validation did not consume the whole trace in %s:\n%s" % (d, vlib.tail(outp, 40)))
        for k in done:
            done[k] += dn[-1][k]
        r = vlib.parse_tlc(outp)
        states += r["distinct"]
        for b in vlib.tlc_prints(outp, "BAD"):
            bad.append((b["hist"], b["line"], b["what"]))
        for b in vlib.tlc_prints(outp, "DIV"):
            div.append(b["hist"])
    done["tlc_states"] = states
    return bad, div, done


def hist_of(lines):
    recs = [json.loads(x) for x in lines]
    return recs


def selftest(ctx, hs, monitors):
    """Step 5: a corrupted copy of an accepted history must be rejected."""
    rnd = random.Random(ctx.seed)
    # only histories without a credential-disposal record: every emitted event is then a REQUIRED one, so that
    # dropping, duplicating or re-attributing it is certainly a violation (strays after CRED_DISP are left open)
    cands = [hh for hh in hs if any('"outs":[{' in l for l in hh) and not any('"CRED_DISP"' in l for l in hh)
             and len(hh) < 40]
    if not cands:
        raise Infra("binding self-test: no recorded history emitted anything")
    rnd.shuffle(cands)
    mutants = []
    for hh in cands[:6]:
        recs = hist_of(hh)
        idx = [i for i, r in enumerate(recs) if r.get("outs")]
        # 1: wrong identity on one event; 2: one event dropped; 3: one event duplicated
        for kind in (1, 2, 3):
            m = json.loads(json.dumps(recs))
            i = rnd.choice(idx)
            o = m[i]["outs"]
            if kind == 1:
                o[0]["id"] = o[0]["id"] + 1
            elif kind == 2:
                o.pop(0)
            else:
                o.insert(0, dict(o[0]))
            m[0]["h"] = len(mutants)
            mutants.append([json.dumps(r, separators=(",", ":")) + "\n" for r in m])
    bad, _, _ = validate(ctx, mutants, "selftest", parts=1)
    rejected = {b[0] for b in bad}
    if len(rejected) != len(mutants):
        raise Infra("binding self-test: %d of %d corrupted traces were accepted by TrackerTrace"
                    % (len(mutants) - len(rejected), len(mutants)))
    return len(mutants)


def describe(recs):
    s = []
    for r in recs[1:]:
        k = r["k"]
        if k == "audit":
            s.append("%s(%s,%s%s)->%d" % ("A", r["sess"] or "''", r["typ"],
                                          (",pid=%d" % r["pid"]) if r["typ"] == "LOGIN" else "", len(r["outs"])))
        elif k == "login":
            s.append("L(pid=%d,id=%d)->%d" % (r["pid"], r["id"], len(r["outs"])))
        elif k in ("cleanS", "cleanL"):
            s.append("%s(%d)" % (k, r["c"]))
        else:
            s.append(k)
    return " ".join(s)


def strip_for_l2(hists):
    """Histories Auditd.Read can be driven with: cleanup calls and ticks removed (its ticker is one minute)."""
    out, seen = [], set()
    for h in hists:
        g = [c for c in h if c["k"] not in ("cleanS", "cleanL", "tick")]
        k = json.dumps(g, sort_keys=True)
        if g and k not in seen:
            seen.add(k)
            out.append(g)
    return out


def replay_l2(ctx, hists, name):
    binp = ctx.go_build("./cmd/auditdl2")
    hp = ctx.path("hists-%s.jsonl" % name)
    tp = ctx.path("trace-%s.ndjson" % name)
    write_hists(hp, hists)
    # sharded over processes (the driver observes RemoteLogin through one process-wide hook); seeds and history
    # numbers are those of the unsharded run
    import concurrent.futures
    k = max(1, min(vlib.NCPU - 2, len(hists) // 200 + 1))

    def shard(i):
        sp = ctx.path("trace-%s-shard%d.ndjson" % (name, i))
        p = ctx.run([binp, "-in", hp, "-out", sp, "-seed", str(ctx.seed), "-stride", str(k), "-offset", str(i)],
                    timeout=1800)
        return sp, json.loads(p.stdout.strip().splitlines()[-1])
    with concurrent.futures.ThreadPoolExecutor(max_workers=k) as ex:
        parts = list(ex.map(shard, range(k)))
    blocks = []
    for sp, _ in parts:
        for hh in split_trace(sp):
            blocks.append((json.loads(hh[0])["h"], hh))
        os.remove(sp)
    blocks.sort(key=lambda b: b[0])
    with open(tp, "w") as f:
        for _, hh in blocks:
            f.writelines(hh)
    stats = {}
    for _, st in parts:
        for kk, v in st.items():
            stats[kk] = stats.get(kk, 0) + v
    stats["histories"] = len(blocks)
    return tp, stats


L2_PROPS = ("C01", "C02", "C04", "C09", "C14")


def run_family(ctx, prop):
    conf = CONF[prop]
    mons = MON[prop]
    # 1. design-level exhaustive check + vacuity guard
    mc = ctx.tlc("Tracker", "Tracker_mc.cfg", timeout=1500, overrides=conf["mc_q" if ctx.quick else "mc_t"],
                 name="mc")
    bug = ctx.tlc("Tracker", "Tracker_reuse_bug.cfg", timeout=300, expect="violation", name="vacuity")
    # 2. histories
    edge, simh, ex, sim = gen_histories(ctx, prop)
    # 3. replay on the real code
    binp = ctx.go_build("./cmd/trackerl1")
    t1, s1 = replay_l1(ctx, binp, edge, "edge")
    t2, s2 = replay_l1(ctx, binp, simh, "sim")
    hs = split_trace(t1)
    hs2 = split_trace(t2)
    for i, hh in enumerate(hs2):          # renumber so that indices are global
        r = json.loads(hh[0])
        r["h"] = len(hs) + i
        hh[0] = json.dumps(r, separators=(",", ":")) + "\n"
    allh = hs + hs2
    # 4. validation
    bad, div, done = validate(ctx, allh, "main")
    if prop == "C04":
        # silence also on the way out: the real Auditd.Read with a session that never got its login, cancelled
        # (scenario of Pipeline!WorkerScenarios, judged by PipelineTrace)
        from checks import sshdfam
        wsc = ctx.tlc("PipelineMC", "Pipeline_scen.cfg", workers=1, timeout=120, name="workerscen")
        ub = [x for x in vlib.tlc_prints(wsc["stdout"], "SCEN")[0] if x["state"] == "unboundcancel"]
        if not ub:
            raise Infra("scenario unboundcancel not found")
        wsp = ctx.path("unbound.json")
        json.dump(ub, open(wsp, "w"))
        fdir = ctx.path("fifos")
        os.makedirs(fdir, exist_ok=True)
        wtp = ctx.path("trace-unbound.ndjson")
        ctx.run([ctx.go_build("./cmd/workers"), "-in", wsp, "-out", wtp, "-dir", fdir, "-reps", "2"], timeout=600)
        wbad, _, _ = sshdfam.validate(ctx, wtp, "unbound", parts=1, module="PipelineTrace", cfg="PipelineTrace.cfg")
        for b in wbad:
            if b["what"] == "UncorrelatedEmittedAtShutdown":
                ctx.violation("UncorrelatedEmittedAtShutdown",
                              "Auditd.Read was cancelled while a session without login held events: events were written "
                              "for it on the way out", {"kind": "worker-scenario", "scenario": ub[0], "observed": b["rec"]})
    wide_lo = wide_hi = -1
    if prop in ("C16", "C02", "C09"):
        # one cleanup pass over many sessions / logins at once (24 and 40; TrackerTraceWide.cfg has the larger sets)
        tw, _ = replay_l1(ctx, binp, wide_histories(24) + wide_histories(40) + long_queue_histories(300)
                          + long_queue_histories(1100) + (long_queue_histories(2200) if not ctx.quick else []), "wide")
        hsw = split_trace(tw)
        base = len(allh)
        for i, hh in enumerate(hsw):
            r = json.loads(hh[0])
            r["h"] = base + i
            hh[0] = json.dumps(r, separators=(",", ":")) + "\n"
        badw, _, _ = validate(ctx, hsw, "wide", cfg="TrackerTraceWide.cfg", parts=2)
        bad += badw
        wide_lo, wide_hi = len(allh), len(allh) + len(hsw)
        allh = allh + hsw
    # the binding self-test needs accepted histories to corrupt; on a tree that breaks the property it may find none
    # that behave: its verdict is looked at after the violations have been registered
    nself, self_err = 0, None
    try:
        nself = selftest(ctx, allh, mons)
    except Infra as e:
        self_err = e
    # 3b/4b. the same histories through the real Auditd.Read (parser, reassembler, coalescer, call-back): L2
    l2stats, l2n = None, 0
    if prop in L2_PROPS:
        l2h = strip_for_l2(edge[: (6000 if ctx.quick else 10 ** 9)] + simh)
        t3, l2stats = replay_l2(ctx, l2h, "l2")
        hs3 = split_trace(t3)
        base = len(allh)
        for i, hh in enumerate(hs3):
            r = json.loads(hh[0])
            r["h"] = base + i
            hh[0] = json.dumps(r, separators=(",", ":")) + "\n"
        bad3, _, done3 = validate(ctx, hs3, "l2", cfg="TrackerTraceL2.cfg")
        bad += bad3
        allh = allh + hs3
        l2n = len(hs3)
        for k in ("lines", "tlc_states"):
            done[k] += done3[k]
    # 3c/4c. a few of the simulated histories through the BUILT DAEMON (L3): both FIFOs fed concurrently, the
    # output file judged by the same predicates (evaluated on the final record only)
    l3n = 0
    if prop in ("C01", "C02", "C04"):
        import random
        from checks import pipeline
        l3h = [h for h in strip_for_l2(simh) if not any(c["k"] == "badlogin" or (c["k"] == "audit" and c["typ"] == "LOGIN"
                                                                              and c["pid"] == 0) for c in h)]
        l3h = l3h[: (6 if ctx.quick else 40)]
        hp3 = ctx.path("hists-l3.jsonl")
        write_hists(hp3, l3h)
        d3 = ctx.path("l3")
        os.makedirs(d3, exist_ok=True)
        l3bin = ctx.go_build("./cmd/l3")
        g = json.loads(ctx.run([l3bin, "-mode", "gen", "-in", hp3, "-dir", d3, "-seed", str(ctx.seed)]).stdout.strip().splitlines()[-1])
        daemon = pipeline.build_daemon(ctx)
        rnd = random.Random(ctx.seed)
        okr = sum(1 for i in range(g["scripts"]) if pipeline.run_script(daemon, d3, i, False, random.Random(ctx.seed * 1000 + i)))
        if okr < g["scripts"] * 0.7:
            raise Infra("only %d of %d daemon runs could be carried out" % (okr, g["scripts"]))
        tp3 = ctx.path("trace-l3.ndjson")
        ctx.run([l3bin, "-mode", "analyse", "-in", hp3, "-dir", d3, "-out", tp3, "-seed", str(ctx.seed)])
        hs4 = split_trace(tp3)
        base = len(allh)
        for i, hh in enumerate(hs4):
            r = json.loads(hh[0])
            r["h"] = base + i
            hh[0] = json.dumps(r, separators=(",", ":")) + "\n"
        bad4, _, done4 = validate(ctx, hs4, "l3", cfg="TrackerTraceL2.cfg")
        # without strace the write(2) view is absent: WholeLines is C10's business
        bad += [b for b in bad4 if b[2] != "WholeLines"]
        allh = allh + hs4
        l3n = len(hs4)
        for k in ("lines", "tlc_states"):
            done[k] += done4[k]
    # verdicts
    mine = [b for b in bad if b[2] in mons]
    other = sorted({b[2] for b in bad if b[2] not in mons})
    byprop = {}
    for hidx, line, what in mine:
        byprop.setdefault(what, []).append(hidx)
    for what, idxs in byprop.items():
        idxs = sorted(set(idxs), key=lambda i: len(allh[i]))
        recs = hist_of(allh[idxs[0]])
        level = "sessionTracker API (L1)"
        if idxs[0] >= len(hs) + len(hs2):
            level = "Auditd.Read (L2: real parser/reassembler)"
        if wide_lo <= idxs[0] < wide_hi:
            level = "sessionTracker API (L1, many sessions / long hold queue)"
        if l3n and idxs[0] >= len(allh) - l3n:
            level = "built daemon (L3: FIFOs, output file)"
        ctx.violation(what, "%s violated on the real code at %s in %d recorded histories; shortest: %s"
                      % (what, level, len(idxs), describe(recs)),
                      {"kind": "history", "level": level, "monitor": what, "history": [
                          {k: v for k, v in r.items() if k not in ("outs", "st", "err", "errs", "mut")}
                          for r in recs[1:]], "observed": recs[1:]})
    if self_err is not None:
        if not ctx.violations:
            raise self_err
        ctx.notes.append("binding self-test not conclusive on this tree: %s" % self_err)
    if other:
        ctx.notes.append("monitors of other properties fired on these traces: %s" % ", ".join(other))
    if div:
        ctx.notes.append("stepwise refinement of Tracker.tla failed in %d histories (diagnostic; e.g. history %d: %s)"
                         % (len(set(div)), div[0], describe(hist_of(allh[div[0]]))))
        log("NOTE %s: the real tracker diverges from Tracker.tla's state in %d histories (no verdict)" % (
            prop, len(set(div))))
    rt = None
    if prop == "C16":
        # timing half: the one-minute ticker (Staleness.tla); real-time runs only in the thorough tier
        stl = ctx.tlc("Staleness", "Staleness.cfg", workers=4, timeout=300, name="staleness")
        if not ctx.quick:
            from checks import sshdfam
            sb = ctx.go_build("./cmd/staleness")
            rtp = ctx.path("trace-realtime.ndjson")
            ctx.run([sb, "-out", rtp, "-seed", str(ctx.seed)], timeout=600)
            rbad, rn, _ = sshdfam.validate(ctx, rtp, "realtime", parts=1, module="StalenessTrace", cfg="StalenessTrace.cfg")
            for b in rbad:
                r = b["rec"]
                ctx.violation("%s/%s" % (b["what"], r["order"]),
                              "%s: real-time run of Auditd.Read, %s, second half %d s after the first: %d of %d events "
                              "emitted (%s)" % (b["what"], r["order"], r["gap"], r["emitted"], r["want"], r["err"]),
                              {"kind": "realtime", "observed": r})
            rt = [json.loads(l) for l in open(rtp)]
    nontriv = sum(1 for hh in allh if any('"outs":[{' in l for l in hh))
    cov = {
        "states": mc["distinct"], "transitions": mc["generated"],
        "traces_validated_against_impl": len(allh),
        "samples": [describe(hist_of(allh[i])) for i in (0, len(hs) // 2, len(hs) - 1, len(allh) - 1)][:4],
        "edge_cover_histories": len(hs), "edge_cover_shapes": ex["distinct"],
        "simulated_histories": len(hs2), "l2_histories_through_Auditd_Read": l2n, "l3_daemon_runs": l3n,
        "l2_audit_log_lines": (l2stats or {}).get("lines", 0),
        "calls_replayed": s1["calls"] + s2["calls"] + (l2stats or {}).get("calls", 0),
        "events_emitted_by_impl": s1["outs"] + s2["outs"],
        "histories_with_emissions": nontriv,
        "trace_lines_validated": done["lines"], "trace_validation_tlc_states": done["tlc_states"],
        "monitors": mons, "refinement_divergent_histories": len(set(div)),
        "binding_selftest_mutants_rejected": nself,
        "vacuity_guard": "Tracker_reuse_bug.cfg violates %s" % bug["violated"],
        "checker_cmd": mc["cmd"],
        "exhaustive": True,
    }
    if rt is not None:
        cov["realtime_runs"] = rt
    return cov


ASSUME = [
    "histories are well-formed in the sense of TrackerCore (one LOGIN record per session id; a pid is reused only "
    "after its previous use ended) - the quantifier of the property",
    "model time is mapped to real instants taken strictly between consecutive calls; cut-offs are those instants",
    "the projection of emitted events identifies a login by exact equality of subjects, source and target with the "
    "login the harness created",
    "exhaustive design-level result is for the bounded constants in tlc_runs; beyond them coverage is by simulation",
]
