"""./bin/check <ID> --replay <file>: re-run the failing history / vector / scenario stored in a replay file against the
current working tree of /repo and have TLC judge it again.  Exit 1 (with a VIOLATION line) if it still fails, 0 if the
tree now passes it."""
import json
import os

import vlib
from vlib import Infra, log


def run(ctx, path):
    rp = json.load(open(path))
    body = rp["replay"]
    kind = body.get("kind", "")
    log("replaying %s (%s): %s" % (path, kind, rp.get("what", "")[:300]))
    bad = []
    if kind in ("history", "l1-history"):
        from checks import tracker
        hist = body["history"]
        hp = ctx.path("hist.jsonl")
        tracker.write_hists(hp, [hist])
        if "L2" in body.get("level", ""):
            tp, _ = tracker.replay_l2(ctx, tracker.strip_for_l2([hist]), "replay")
            cfg = "TrackerTraceL2.cfg"
        else:
            binp = ctx.go_build("./cmd/trackerl1")
            tp, _ = tracker.replay_l1(ctx, binp, [hist], "replay")
            cfg = "TrackerTrace.cfg"
        b, _, _ = tracker.validate(ctx, tracker.split_trace(tp), "replay", parts=1, cfg=cfg)
        bad = [x[2] for x in b if x[2] in tracker.MON.get(ctx.pid, []) or x[2] == body.get("monitor")]
    elif kind == "sshd-vector":
        from checks import sshdfam
        vec = {"form": "replay", "line": body["line"], "emits": bool(body.get("expected_event")), "fam": "grammar" if body.get("expected_event") else "mutant",
               "pidtok": "<pid.literal>", "event": body.get("expected_event") or {}, "login": body.get("expected_login") or {"fwd": False},
               "counter": {}}
        # the literal pid and line are replayed as they were
        vec["line"] = body["line"]
        os.environ["VERIF_REPLAY_PID"] = str(body.get("pid", "1"))
        tp, _ = sshdfam.run_vectors(ctx, [vec], 1, name="replay", fifo_every=1)
        b, _, _ = sshdfam.validate(ctx, tp, "replay", parts=1)
        bad = [x["what"] for x in b if x["what"] == body.get("predicate") or x["what"] in sshdfam.PROPS.get(ctx.pid, ([], []))[1]]
    elif kind == "schedule":
        from checks import sshdfam
        pp = ctx.path("progs.jsonl")
        open(pp, "w").write(json.dumps({"name": body["program"], "threads": body["threads"], "post": body.get("post") or []}) + "\n")
        tp = ctx.path("outcomes.ndjson")
        ctx.run([ctx.go_build("./cmd/trackerconc"), "-in", pp, "-out", tp, "-seed", str(rp.get("seed", 1)),
                 "-schedule", ",".join(str(x) for x in body["schedule"])], timeout=600)
        b, _, _ = sshdfam.validate(ctx, tp, "replay", parts=1, module="TrackerLin", cfg="TrackerLin.cfg")
        bad = [x["what"] for x in b if x["what"] != "StateDiverges"]
    elif kind == "framing-scenario":
        from checks import sshdfam
        sp = ctx.path("scen.jsonl")
        open(sp, "w").write(json.dumps(body["scenario"]) + "\n")
        fd = ctx.path("fifos")
        os.makedirs(fd, exist_ok=True)
        tp = ctx.path("trace.ndjson")
        ctx.run([ctx.go_build("./cmd/framing"), "-in", sp, "-out", tp, "-dir", fd, "-seed", str(rp.get("seed", 1)),
                 "-workers", "1"], timeout=600)
        b, _, _ = sshdfam.validate(ctx, tp, "replay", parts=1, module="FramingTrace", cfg="FramingTrace.cfg")
        bad = [x["what"] for x in b]
    elif kind == "reassembler-scenario":
        from checks import sshdfam
        sp = ctx.path("scen.jsonl")
        open(sp, "w").write(json.dumps({"shapes": body["shapes"], "order": body["order"], "fault": body["fault"],
                                        "expect": {}}) + "\n")
        tp = ctx.path("trace.ndjson")
        ctx.run([ctx.go_build("./cmd/reasm"), "-in", sp, "-out", tp, "-seed", str(rp.get("seed", 1)), "-backlogevery", "1"],
                timeout=600)
        b, _, _ = sshdfam.validate(ctx, tp, "replay", parts=1, module="ReasmTrace", cfg="ReasmTrace.cfg")
        bad = [x["what"] for x in b]
    elif kind == "worker-scenario":
        from checks import sshdfam
        sp = ctx.path("scen.json")
        json.dump([body["scenario"]], open(sp, "w"))
        fd = ctx.path("fifos")
        os.makedirs(fd, exist_ok=True)
        tp = ctx.path("trace.ndjson")
        ctx.run([ctx.go_build("./cmd/workers"), "-in", sp, "-out", tp, "-dir", fd, "-reps", "3"], timeout=600)
        b, _, _ = sshdfam.validate(ctx, tp, "replay", parts=1, module="PipelineTrace", cfg="PipelineTrace.cfg")
        bad = [x["what"] for x in b if x["what"] != "StateNotReached"]
    elif kind == "daemon-scenario":
        from checks import sshdfam, pipeline
        binp = pipeline.build_daemon(ctx)
        tp = ctx.path("trace.ndjson")
        with open(tp, "w") as f:
            for i in range(3):
                f.write(json.dumps(pipeline.run_daemon_scenario(ctx, binp, i, body["cause"], body["load"])) + "\n")
        b, _, _ = sshdfam.validate(ctx, tp, "replay", parts=1, module="PipelineTrace", cfg="PipelineTrace.cfg")
        bad = [x["what"] for x in b if x["what"] != "ScenarioNotEstablished"]
    elif kind in ("health-seq", "health-conc", "health-wait"):
        from checks import sshdfam
        r = body["record"]
        mode = kind.split("-")[1]
        item = ({"ops": r["ops"]} if mode == "seq" else
                {"name": r["name"], "pre": r["pre"], "threads": r["threads"]} if mode == "conc" else r["script"])
        if mode == "seq":
            item = r["ops"]
        ip = ctx.path("in.jsonl")
        open(ip, "w").write(json.dumps(item) + "\n")
        tp = ctx.path("trace.ndjson")
        ctx.run([ctx.go_build("./cmd/healthh"), "-mode", mode, "-in", ip, "-out", tp, "-seed", str(rp.get("seed", 1)),
                 "-cap", "600000"], timeout=1200)
        b, _, _ = sshdfam.validate(ctx, tp, "replay", parts=1, module="HealthTrace", cfg="HealthTrace.cfg")
        bad = [x["what"] for x in b]
    elif kind == "dirreader-scenario":
        from checks import sshdfam
        ex = ctx.tlc("DirReaderMC", "DirReader_export.cfg", workers=1, timeout=600, name="inits", overrides={"MaxOps": "0"})
        inits = vlib.tlc_prints(ex["stdout"], "INITS")[0]
        idx = inits.index(body["init"]) + 1
        sp, ip = ctx.path("scen.jsonl"), ctx.path("inits.json")
        open(sp, "w").write(json.dumps({"init": idx, "ops": body["ops"]}) + "\n")
        json.dump(inits, open(ip, "w"))
        rd = ctx.path("real")
        os.makedirs(rd, exist_ok=True)
        tp = ctx.path("trace.ndjson")
        ctx.run([ctx.go_build("./cmd/dirreaderh"), "-in", sp, "-inits", ip, "-out", tp, "-seed", str(rp.get("seed", 1)),
                 "-dir", rd], timeout=600)
        b, _, _ = sshdfam.validate(ctx, tp, "replay", parts=1, module="DirReaderTrace", cfg="DirReaderTrace.cfg")
        bad = [x["what"] for x in b]
    else:
        log("this kind of replay (%s) is re-run by the check itself: VERIF_SEED=%s ./bin/check %s --tier %s" % (
            kind, rp.get("seed"), ctx.pid, rp.get("tier", "quick")))
        log(json.dumps(body, indent=1)[:4000])
        return 2
    if bad:
        log("VIOLATION property=%s replay=%s" % (ctx.pid, path))
        log("  still failing: %s" % ", ".join(sorted(set(bad))))
        return 1
    log("PASS replay %s: the current tree satisfies the property on this input" % path)
    return 0
