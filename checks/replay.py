"""./bin/check <ID> --replay <file>: re-run the failing history / vector / scenario stored in a replay file against the
current working tree of /repo and have TLC judge it again.  Exit 1 (with a VIOLATION line) if it still fails, 0 if the
tree now passes it."""
import json
import os

import vlib
from vlib import Infra, log


def run(ctx, path):
    rp = json.load(open(path))
    body = rp["replay"]
    kind = body.get("kind", "")
    log("replaying %s (%s): %s" % (path, kind, rp.get("what", "")[:300]))
    bad = []
    if kind in ("history", "l1-history"):
        from checks import tracker
        hist = body["history"]
        hp = ctx.path("hist.jsonl")
        tracker.write_hists(hp, [hist])
        if "L2" in body.get("level", ""):
            tp, _ = tracker.replay_l2(ctx, tracker.strip_for_l2([hist]), "replay")
            cfg = "TrackerTraceL2.cfg"
        else:
            binp = ctx.go_build("./cmd/trackerl1")
            tp, _ = tracker.replay_l1(ctx, binp, [hist], "replay")
            cfg = "TrackerTrace.cfg"
        b, _, _ = tracker.validate(ctx, tracker.split_trace(tp), "replay", parts=1, cfg=cfg)
        bad = [x[2] for x in b if x[2] in tracker.MON.get(ctx.pid, []) or x[2] == body.get("monitor")]
    elif kind == "sshd-vector":
        from checks import sshdfam
        vec = {"form": "replay", "line": body["line"], "emits": bool(body.get("expected_event")), "fam": "grammar" if body.get("expected_event") else "mutant",
               "pidtok": "<pid.literal>", "event": body.get("expected_event") or {}, "login": body.get("expected_login") or {"fwd": False},
               "counter": {}}
        # the literal pid and line are replayed as they were
        vec["line"] = body["line"]
        os.environ["VERIF_REPLAY_PID"] = str(body.get("pid", "1"))
        tp, _ = sshdfam.run_vectors(ctx, [vec], 1, name="replay", fifo_every=1)
        b, _, _ = sshdfam.validate(ctx, tp, "replay", parts=1)
        bad = [x["what"] for x in b if x["what"] == body.get("predicate") or x["what"] in sshdfam.PROPS.get(ctx.pid, ([], []))[1]]
    else:
        log("this kind of replay is re-run by the check itself: VERIF_SEED=%s ./bin/check %s --tier %s" % (
            rp.get("seed"), ctx.pid, rp.get("tier", "quick")))
        log(json.dumps(body, indent=1)[:4000])
        return 2
    if bad:
        log("VIOLATION property=%s replay=%s" % (ctx.pid, path))
        log("  still failing: %s" % ", ".join(sorted(set(bad))))
        return 1
    log("PASS replay %s: the current tree satisfies the property on this input" % path)
    return 0
