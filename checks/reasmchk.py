"""C15: ReasmCore/ReasmGen.tla (TLC: for every event-shape combination, interleaving of records and fault the
model of parser + reassembler (as used) + call-back groups records per kernel event, hands every event over at most
once, and stops with the fault's error) + every scenario realised through the real Auditd.Read (harness/cmd/reasm)
and judged by TLC (ReasmTrace.tla)."""
import json
import random

import vlib
from vlib import Infra
from checks import sshdfam


def run(ctx):
    gen = ctx.tlc("ReasmGen", "ReasmGen.cfg", workers=1, timeout=3000, name="gen",
                  overrides={"MaxEvents": "2", "Rich": '"rich"'} if ctx.quick else {"MaxEvents": "3", "Rich": '"plain"'})
    scs = vlib.tlc_prints(gen["stdout"], "SCEN")
    if len(scs) < 500:
        raise Infra("too few scenarios: %d" % len(scs))
    if ctx.quick:
        # output failures with more events in flight (three events; a sample): what Read's deferred Close() flushes
        gen3 = ctx.tlc("ReasmGen", "ReasmGen.cfg", workers=1, timeout=3000, name="gen3",
                       overrides={"MinEvents": "3", "MaxEvents": "3", "Rich": '"min"', "FaultKinds": '{"none", "writefail", "writefailp"}'})
        sc3 = [s for s in vlib.tlc_prints(gen3["stdout"], "SCEN") if len(s["shapes"]) == 3]
        scs += random.Random(ctx.seed).sample(sc3, min(len(sc3), 600))
    if len(scs) > 40000:
        rnd = random.Random(ctx.seed)
        scs = rnd.sample(scs, 40000)
    # a writer that pauses inside an event (0.9 s: shorter than the 2 s reassembly time-out, longer than its maintenance
    # interval) while records of another event follow: still one event
    gaps = [s for s in scs if s["fault"]["kind"] == "none" and len(s["order"]) >= 3 and s["order"][0][1] == "S"
            and s["order"][1][0] != s["order"][0][0]]
    for s in random.Random(ctx.seed + 2).sample(gaps, min(6 if ctx.quick else 40, len(gaps))):
        scs.append(dict(s, pauseAt=1, pauseMs=900))
    # a wide window: one event whose records are separated by many complete events of other sequence numbers (far
    # fewer than the reassembler's window of 1000 events)
    for width in ((20, 60) if ctx.quick else (20, 60, 300, 900)):
        shapes = [["S", "E", "P"]] + [["U"]] * width
        order = [[1, "S"]] + [[k + 2, "U"] for k in range(width)] + [[1, "E"], [1, "P"]]
        scs.append({"shapes": shapes, "order": order, "fault": {"kind": "none"}, "expect": {}})
    sp = ctx.path("scen.jsonl")
    with open(sp, "w") as f:
        for s in scs:
            f.write(json.dumps(s) + "\n")
    binp = ctx.go_build("./cmd/reasm")
    tp = ctx.path("trace.ndjson")
    p = ctx.run([binp, "-in", sp, "-out", tp, "-seed", str(ctx.seed), "-backlogevery", "3" if ctx.quick else "2"],
                timeout=3400)
    st = json.loads(p.stdout.strip().splitlines()[-1])
    bad, nlines, vstates = sshdfam.validate(ctx, tp, "reasm", module="ReasmTrace", cfg="ReasmTrace.cfg")
    nsetup = sum(1 for l in open(tp) if '"setup-failed"' in l)
    if nsetup > max(3, len(scs) // 2000):
        raise Infra("%d scenarios could not be set up by the harness" % nsetup)
    if nsetup:
        # a loaded machine: a handful of scenarios whose session could not be correlated in time are left out
        ctx.notes.append("%d scenario(s) could not be set up (left out)" % nsetup)
        bad = [b for b in bad if b["rec"]["obs"]["ret"] != "setup-failed"]
    groups = {}
    for b in bad:
        r = b["rec"]
        groups.setdefault((b["what"], r["fault"]["kind"] + "/" + r.get("mode", "stepwise")), []).append(r)
    for (what, kind), rs in groups.items():
        rs.sort(key=lambda r: len(r["order"]))
        r = rs[0]
        ctx.violation("%s/%s" % (what, kind),
                      "%s (%d scenarios; delivery mode after the slash: stepwise = line by line, backlog = stream queued in "
                      "the line channel, busy = failure reported while Read handles a login): events %s, records fed in the order %s, fault %s -> events at the output %s, "
                      "Read returned %s (%s)" % (what, len(rs), r["shapes"], r["order"], r["fault"], r["obs"]["events"],
                                                 r["obs"]["ret"], r["obs"]["rets"][:200]),
                      {"kind": "reassembler-scenario", "shapes": r["shapes"], "order": r["order"], "fault": r["fault"],
                       "observed": r["obs"]})
    # before Read: the audit-log ingester feeding the line channel (FIFO -> framing -> channel). A consumer that is away
    # until a send is blocked and then takes everything finds every line, in order (scenario "sendingthrough" of
    # Pipeline!WorkerScenarios, judged by PipelineTrace): back-pressure delays records, it does not skip them
    import os
    wsc = ctx.tlc("PipelineMC", "Pipeline_scen.cfg", workers=1, timeout=120, name="workerscen")
    thr = [x for x in vlib.tlc_prints(wsc["stdout"], "SCEN")[0] if x["state"] == "sendingthrough"]
    if len(thr) < 3:
        raise Infra("scenario sendingthrough not found")
    wsp = ctx.path("through.json")
    json.dump(thr, open(wsp, "w"))
    fdir = ctx.path("fifos")
    os.makedirs(fdir, exist_ok=True)
    wtp = ctx.path("trace-through.ndjson")
    ctx.run([ctx.go_build("./cmd/workers"), "-in", wsp, "-out", wtp, "-dir", fdir, "-reps", "2"], timeout=600)
    wbad, _, _ = sshdfam.validate(ctx, wtp, "through", parts=1, module="PipelineTrace", cfg="PipelineTrace.cfg")
    wrecs = [json.loads(l) for l in open(wtp)]
    if not [r for r in wrecs if r.get("login") == "lines:ok"] and not wbad:
        raise Infra("no back-pressure scenario was established")
    for b in wbad:
        r = b["rec"]
        if b["what"] == "LineDroppedUnderBackPressure":
            ctx.violation("LineDroppedUnderBackPressure/cap%d" % r["cap"],
                          "audit-log ingester, line channel of capacity %d full while the consumer was away: %s"
                          % (r["cap"], r.get("note", "")),
                          {"kind": "worker-scenario", "scenario": {"worker": "A", "state": "sendingthrough", "cap": r["cap"],
                                                                   "stall": 0}, "observed": r})
    recs = [json.loads(l) for l in open(tp)]
    badids = {b["rec"]["id"] for b in bad}
    muts = []
    for r in recs:
        if r["id"] in badids or len(muts) >= 8:
            continue
        if r["fault"]["kind"] == "none" and len(r["obs"]["events"]) >= 2:
            a = json.loads(json.dumps(r)); a["obs"]["events"] = a["obs"]["events"][:-1]; muts.append(a)   # an event skipped
            b = json.loads(json.dumps(r)); b["obs"]["events"].append(dict(b["obs"]["events"][0])); muts.append(b)
        if r["fault"]["kind"] == "malformed" and r["obs"]["ret"] == "parse":
            c = json.loads(json.dumps(r)); c["obs"]["ret"] = "none"; muts.append(c)                       # error dropped
            d = json.loads(json.dumps(r)); d["obs"]["msgline"] = False; muts.append(d)
    for i, m in enumerate(muts):
        m["id"] = i
    mp = ctx.path("trace-selftest.ndjson")
    with open(mp, "w") as f:
        for m in muts:
            f.write(json.dumps(m) + "\n")
    mbad, _, _ = sshdfam.validate(ctx, mp, "reasmself", parts=1, module="ReasmTrace", cfg="ReasmTrace.cfg")
    if len({b["rec"]["id"] for b in mbad}) != len(muts) or len(muts) < 4:
        raise Infra("binding self-test: corrupted observations accepted (%d of %d rejected)"
                    % (len({b['rec']['id'] for b in mbad}), len(muts)))
    return {
        "states": gen["distinct"], "transitions": gen["generated"], "traces_validated_against_impl": len(recs),
        "samples": [{"shapes": r["shapes"], "order": r["order"], "fault": r["fault"], "observed": r["obs"]}
                    for r in recs[:: max(1, len(recs) // 3)]][:3],
        "scenarios": len(scs), "events_at_output": st["events"], "back_pressure_scenarios": len(wrecs),
        "faults": sorted({r["fault"]["kind"] for r in recs}),
        "binding_selftest_mutants_rejected": len(muts), "checker_cmd": gen["cmd"], "exhaustive": True,
    }


ASSUME = [
    "go-libaudit's reassembler is modelled as used (completion on PROCTITLE / single-record types, head-first "
    "clean-up); its time-out and overflow paths are not exercised",
    "one session is correlated beforehand so that 'handed to the correlator' is observable at the encoder",
    "after a failure Read's deferred reassembler.Close() may flush what the reassembler still holds: such events are "
    "accepted if they are pending events, once each",
]
