"""Pipeline family: C13 (workers stop on cancellation in every blocking state) and C08 (fail-stop of the whole
daemon), both decided with specs/Pipeline.tla:
  - TLC checks the liveness obligations (any worker returned / signal / cancel ~> everything returned, exit) on the
    design with weak fairness, and that the pinned-tree variant (bare channel send) violates them (vacuity guard);
  - C13: every blocking situation of Pipeline!WorkerScenarios is realised against the real worker
    (harness/cmd/workers), cancelled, and the observation judged by PipelineTrace!WorkerChecks;
  - C08: every fail-stop scenario (cause x load) is run against the BUILT BINARY with real FIFOs and judged by
    PipelineTrace!DaemonChecks.
"""
import json
import os
import shutil
import signal
import subprocess
import threading
import time

import vlib
from vlib import Infra
from checks import sshdfam


def design(ctx):
    # the design check and its vacuity guard (the pinned tree's bare send must violate the liveness properties) side by side
    import concurrent.futures
    half = max(2, vlib.NCPU // 2)
    with concurrent.futures.ThreadPoolExecutor(max_workers=2) as ex:
        f1 = ex.submit(ctx.tlc, "Pipeline", "Pipeline.cfg", timeout=900, name="mc", workers=half,
                       overrides=None if ctx.quick else {"Cap": "2"})
        f2 = ex.submit(ctx.tlc, "Pipeline", "Pipeline.cfg", timeout=900, name="vacuity", expect="violation",
                       workers=half, overrides={"CtxAwareSend": "FALSE"})
        return f1.result(), f2.result()


# ----------------------------------------------------------------------------------------------- C13
def run_c13(ctx):
    mc, vac = design(ctx)
    sc = ctx.tlc("PipelineMC", "Pipeline_scen.cfg", workers=1, timeout=120, name="scen")
    scen = vlib.tlc_prints(sc["stdout"], "SCEN")[0]
    sp = ctx.path("scen.json")
    json.dump(scen, open(sp, "w"))
    binp = ctx.go_build("./cmd/workers")
    fd = ctx.path("fifos")
    os.makedirs(fd, exist_ok=True)
    tp = ctx.path("trace.ndjson")
    reps = 2 if ctx.quick else 12
    p = ctx.run([binp, "-in", sp, "-out", tp, "-dir", fd, "-reps", str(reps)], timeout=1800)
    bad, nlines, vstates = sshdfam.validate(ctx, tp, "workers", parts=1, module="PipelineTrace", cfg="PipelineTrace.cfg")
    recs = [json.loads(l) for l in open(tp)]
    notreached = [b for b in bad if b["what"] == "StateNotReached"]
    if len(notreached) > len(recs) // 4:
        raise Infra("the harness could not establish %d of %d blocking states" % (len(notreached), len(recs)))
    for b in bad:
        r = b["rec"]
        if b["what"] == "UncorrelatedEmittedAtShutdown":
            ctx.notes.append("events of a session without login were written while the processor shut down (reported by the C04 check)")
            continue
        if b["what"] == "WriteErrorLost":
            ctx.notes.append("a write error was lost on the way out of the sshd worker (reported by the C05 check)")
            continue
        if b["what"] == "LineDroppedUnderBackPressure":
            ctx.notes.append("audit lines were dropped while the line channel was full (reported by the C15 check)")
            continue
        if b["what"] == "LoginDropped":
            ctx.notes.append("a login blocked in the hand-off was dropped while the correlator was busy (reported by the C05 check)")
            continue
        if b["what"] == "StateNotReached":
            ctx.notes.append("blocking state not established for %s/%s cap=%d (skipped)" % (r["worker"], r["state"], r["cap"]))
            continue
        ctx.violation("%s/%s/%s/%s" % (b["what"], r["worker"], r["state"], "long-stall" if r.get("stall") else "short"),
                      "%s: worker %s cancelled after %d ms in state '%s' (channel capacity / login variant %d): returned=%s "
                      "after %d ms, deliveries after return=%d, error=%r" % (
                          b["what"], r["worker"], r.get("stall", 0), r["state"], r["cap"], r["returned"], r["ms"],
                          r["late"], r["err"]) + ((" - " + r["note"]) if r.get("note") else ""),
                      {"kind": "worker-scenario", "scenario": {"worker": r["worker"], "state": r["state"], "cap": r["cap"],
                                                               "stall": r.get("stall", 0)},
                       "observed": r})
    # binding self-test
    muts = []
    for r in recs[:3]:
        a = dict(r, returned=False, ms=3000); muts.append(a)
        b = dict(r, late=2); muts.append(b)
    mp = ctx.path("trace-selftest.ndjson")
    with open(mp, "w") as f:
        for i, m in enumerate(muts):
            m["id"] = i
            f.write(json.dumps(m) + "\n")
    mbad, _, _ = sshdfam.validate(ctx, mp, "workersself", parts=1, module="PipelineTrace", cfg="PipelineTrace.cfg")
    if len({b["rec"]["id"] for b in mbad}) != len(muts):
        raise Infra("binding self-test: corrupted worker observations accepted")
    return {
        "states": mc["distinct"], "transitions": mc["generated"], "traces_validated_against_impl": len(recs),
        "samples": [{k: r[k] for k in ("worker", "state", "cap", "reached", "returned", "ms", "late", "err")}
                    for r in recs[:: max(1, len(recs) // 4)]][:4],
        "worker_scenarios": len(scen), "repetitions": reps,
        "max_return_ms": max(r["ms"] for r in recs), "vacuity_guard": "CtxAwareSend=FALSE violates %s" % vac["violated"],
        "binding_selftest_mutants_rejected": len(muts), "checker_cmd": mc["cmd"], "exhaustive": True,
    }


ASSUME13 = [
    "bounded time = 2 s on the real worker (the code's own periods are 500 ms and below); the design-level statement is "
    "liveness under weak fairness",
    "deliveries within 60 ms after the return are attributed to work in flight at the instant of cancellation; later "
    "ones count as delivered after returning",
]


# ----------------------------------------------------------------------------------------------- C08
def build_daemon(ctx):
    src = ctx.path("src")
    shutil.rmtree(src, ignore_errors=True)
    ctx.run(["rsync", "-a", "--exclude", ".git", vlib.REPO + "/", src + "/"], timeout=120)
    out = ctx.path("audito-maldito")
    p = subprocess.run(["go", "build", "-tags", "verif", "-o", out, "."], cwd=src, env=vlib.goenv(),
                       stdout=subprocess.PIPE, stderr=subprocess.STDOUT, text=True)
    shutil.rmtree(src, ignore_errors=True)
    if p.returncode != 0:
        raise Infra("daemon build failed:\n" + p.stdout[-3000:])
    return out


def run_target_probe(ctx, binp, idx, node_env):
    """One short run of the built daemon with NODE_NAME set / empty / unset: a few sshd lines of different forms; returns
    the target of every event written (C06: every event carries this node's name and machine id)."""
    import socket
    d = ctx.path("tgt%d" % idx)
    shutil.rmtree(d, ignore_errors=True)
    os.makedirs(d)
    sp, ap, op = os.path.join(d, "sshd-pipe"), os.path.join(d, "audit-pipe"), os.path.join(d, "out.log")
    os.mkfifo(sp)
    os.mkfifo(ap)
    open(op, "w").close()
    env = dict(os.environ)
    env.pop("NODE_NAME", None)
    if node_env is not None:
        env["NODE_NAME"] = node_env
    errf = open(os.path.join(d, "stderr.txt"), "w")
    proc = subprocess.Popen([binp, "--sshd-pipe-path", sp, "--auditd-pipe-path", ap, "--app-events-output", op],
                            stdout=errf, stderr=errf, env=env, cwd=d)
    lines = ["4242 Accepted password for bob from 10.0.0.1 port 22 ssh2",
             "4243 Accepted publickey for bob from 10.0.0.2 port 23 ssh2: ED25519 SHA256:YI+caZKJCNaXgsD0NvRZ2fLaEeF46cEVyadru/SL76o",
             "4244 Invalid user eve from 10.0.0.3 port 24", "4245 Failed password for root from 10.0.0.4 port 25 ssh2",
             "4246 Certificate invalid: expired", "4247 ROOT LOGIN REFUSED FROM 10.0.0.5 port 26"]
    rec = {"k": "target", "id": idx, "vec": idx, "conc": 0, "env": "unset" if node_env is None else ("empty" if node_env == "" else "set"),
           "wanthost": node_env or socket.gethostname(), "wantmid": open("/etc/machine-id").read().strip(),
           "hosts": [], "mids": [], "events": 0, "sent": len(lines)}
    sw = aw = None
    try:
        sw, aw = open_writer(sp, 10), open_writer(ap, 10)
        if sw is None or aw is None:
            rec["events"] = -1
            return rec
        os.set_blocking(sw, True)
        os.write(sw, ("\n".join(lines) + "\n").encode())
        dl = time.time() + 5
        while time.time() < dl and open(op).read().count("\n") < len(lines):
            time.sleep(0.05)
        for l in open(op).read().splitlines():
            try:
                e = json.loads(l)
            except ValueError:
                continue
            rec["events"] += 1
            rec["hosts"].append((e.get("target") or {}).get("host", "<none>"))
            rec["mids"].append((e.get("target") or {}).get("machine-id", "<none>"))
    finally:
        for fd in (sw, aw):
            if fd is not None:
                try:
                    os.close(fd)
                except OSError:
                    pass
        if proc.poll() is None:
            proc.send_signal(signal.SIGTERM)
            try:
                proc.wait(timeout=5)
            except subprocess.TimeoutExpired:
                proc.kill()
                proc.wait()
        errf.close()
        shutil.rmtree(d, ignore_errors=True)
    return rec


def audit_line(i):
    return ("type=USER_START msg=audit(1668460768.%03d:%d): pid=25007 uid=0 auid=1000 ses=499 "
            "msg='op=PAM:session_open grantors=pam_unix acct=\"someuser\" exe=\"/usr/sbin/sshd\" hostname=127.0.0.1 "
            "addr=127.0.0.1 terminal=ssh res=success'\n" % (i % 1000, 30000 + i))


CAUSES = ["sshd-eof", "audit-eof", "sshd-eof-partial", "audit-eof-partial", "audit-malformed", "audit-unknown-type",
          "output-fails", "output-breaks-inflight", "output-breaks-staggered", "bad-login-pid", "sigterm", "sigint",
          "sshd-not-fifo", "sshd-missing", "audit-not-fifo", "audit-missing"]


def scenarios():
    out = []
    for c in CAUSES:
        if c.endswith("-not-fifo") or c.endswith("-missing"):
            out.append((c, "unopened"))
            continue
        out.append((c, "idle"))
        if c not in ("audit-eof", "audit-eof-partial", "output-breaks-inflight", "output-breaks-staggered"):
            out.append((c, "flood"))
        if c in ("sigterm", "sigint"):
            out.append((c, "unopened"))
            # the events output does not exist (yet): the daemon is still waiting for it when the signal arrives
            out.append((c, "nooutput"))
    return out


class Flooder(threading.Thread):
    def __init__(self, fd):
        super().__init__(daemon=True)
        self.fd, self.stop, self.n, self.inject = fd, False, 0, None
        self.chunk = "".join(audit_line(i) for i in range(200)).encode()

    def run(self):
        try:
            while not self.stop:
                if self.inject is not None:
                    os.write(self.fd, self.inject)
                    self.inject = None
                os.write(self.fd, self.chunk)
                self.n += 200
        except OSError:
            pass


def open_writer(path, timeout=5.0):
    """Open a FIFO for writing once the daemon has opened it for reading."""
    dl = time.time() + timeout
    while time.time() < dl:
        try:
            return os.open(path, os.O_WRONLY | os.O_NONBLOCK)
        except OSError:
            time.sleep(0.01)
    return None


def run_daemon_scenario(ctx, binp, idx, cause, load):
    d = ctx.path("d%d" % idx)
    os.makedirs(d, exist_ok=True)
    sp, ap, op = os.path.join(d, "sshd-pipe"), os.path.join(d, "audit-pipe"), os.path.join(d, "out.log")
    open(op, "w").close()
    for p, kind in ((sp, "sshd"), (ap, "audit")):
        if cause == kind + "-not-fifo":
            open(p, "w").close()
        elif cause == kind + "-missing":
            pass
        else:
            os.mkfifo(p)
    outpath = "/dev/full" if cause == "output-fails" else op
    if load == "nooutput":
        os.remove(op)
    outreader = None
    if cause in ("output-breaks-inflight", "output-breaks-staggered"):
        os.remove(op)
        os.mkfifo(op)
        outreader = os.open(op, os.O_RDONLY | os.O_NONBLOCK)
    env = dict(os.environ, NODE_NAME="verif-node")
    errf = open(os.path.join(d, "stderr.txt"), "w")
    argv = [binp, "--sshd-pipe-path", sp, "--auditd-pipe-path", ap, "--app-events-output", outpath]
    blocker = None
    if load in ("http", "http-stalled"):
        argv += ["--healthz", "--metrics", "--audit-metrics", "--audit-seconds-interval", "1s"]
        if cause == "http-port-busy":
            import socket
            blocker = socket.socket(socket.AF_INET6, socket.SOCK_STREAM)
            blocker.setsockopt(socket.SOL_SOCKET, socket.SO_REUSEADDR, 1)
            try:
                blocker.bind(("::", 2112))
                blocker.listen(1)
            except OSError:
                blocker.close()
                errf.close()
                return {"k": "daemon", "id": idx, "cause": cause, "load": load, "started": False, "exited": False,
                        "status": -1, "ms": 0, "flooded": 0, "stderr": "port 2112 not available to the harness"}
    proc = subprocess.Popen(argv, stdout=errf, stderr=errf, env=env, cwd=d)
    rec = {"k": "daemon", "id": idx, "cause": cause, "load": load, "started": False, "exited": False, "status": -1,
           "ms": 0, "flooded": 0}
    sw = aw = None
    fl = None
    try:
        if cause == "http-port-busy":
            t0 = time.time()
            rec["started"] = True
            try:
                proc.wait(timeout=8)
                rec.update(exited=True, status=proc.returncode, ms=int((time.time() - t0) * 1000))
            except subprocess.TimeoutExpired:
                rec.update(exited=False, ms=8000)
            return rec
        if load not in ("unopened", "nooutput"):
            sw, aw = open_writer(sp), open_writer(ap)
            if sw is None or aw is None:
                return rec
            os.set_blocking(sw, True)
            os.set_blocking(aw, True)
            time.sleep(0.15)
        else:
            time.sleep(0.3)
        if proc.poll() is not None and not (cause.endswith("-not-fifo") or cause.endswith("-missing")):
            rec.update(exited=True, status=proc.returncode)
            return rec
        rec["started"] = True
        stalled = None
        if load == "http-stalled":
            # a scraper that went deaf: many pipelined requests on one connection, nothing ever read - a handler ends up
            # stuck writing its response; the daemon must still stop when a worker fails
            import socket
            try:
                stalled = socket.create_connection(("127.0.0.1", 2112), timeout=2)
                stalled.setsockopt(socket.SOL_SOCKET, socket.SO_RCVBUF, 4096)
                stalled.setblocking(False)
                req = b"GET /metrics HTTP/1.1\r\nHost: x\r\n\r\n" * 50
                dl = time.time() + 8
                sent, last = 0, time.time()
                while time.time() < dl and sent < 64 << 20:
                    try:
                        sent += stalled.send(req)
                        last = time.time()
                    except BlockingIOError:
                        # nothing accepted for a second: the server has stopped reading, its handler is stuck in Write
                        if time.time() - last > 1.0:
                            break
                        time.sleep(0.02)
                rec["stalled_bytes"] = sent
            except OSError:
                rec["started"] = False
        if load == "http":
            # the readiness endpoint of the running daemon answers (C18 at daemon level: informational)
            try:
                import urllib.request
                with urllib.request.urlopen("http://127.0.0.1:2112/readyz", timeout=2) as r:
                    rec["readyz"] = r.status
            except Exception as e:  # noqa: BLE001
                rec["readyz"] = getattr(e, "code", -1)
        if load == "flood":
            fl = Flooder(aw)
            fl.start()
            time.sleep(0.3)
        t0 = time.time()
        if cause == "sshd-eof":
            os.close(sw); sw = None
        elif cause == "audit-eof":
            os.close(aw); aw = None
        elif cause == "sshd-eof-partial":
            os.write(sw, b"4242 Accepted password for bob from 10.0.0.1 po")
            time.sleep(0.05)
            os.close(sw); sw = None
        elif cause == "audit-eof-partial":
            os.write(aw, b"type=USER_START msg=audit(1668460768.196:30166): pid=25007 uid=0 auid=1000 ses=499 msg='op=PAM:sess")
            time.sleep(0.05)
            os.close(aw); aw = None
        elif cause == "audit-unknown-type":
            bad = b"type=FOOBAR msg=audit(1668460768.196:30166): pid=1 a=b\n"
            if fl:
                fl.inject = bad
            else:
                os.write(aw, bad)
        elif cause in ("output-breaks-inflight", "output-breaks-staggered"):
            # the reader of the output (a FIFO here) goes away while events of a correlated session are in flight
            os.write(sw, b"25007 Accepted password for bob from 10.0.0.1 port 22 ssh2\n")
            os.write(aw, b"type=LOGIN msg=audit(1668460768.100:29999): pid=25007 uid=0 old-auid=4294967295 auid=1000 tty=(none) old-ses=4294967295 ses=499 res=1\n")
            time.sleep(0.3)
            if outreader is not None:
                os.close(outreader); outreader = None
            unterminated = ("type=SYSCALL msg=audit(1668460769.%03d:%d): arch=c000003e syscall=59 success=yes exit=0 a0=1 a1=2 a2=3 a3=4 items=0 ppid=1 pid=25010 auid=1000 uid=1000 gid=1000 euid=1000 suid=1000 fsuid=1000 egid=1000 sgid=1000 fsgid=1000 tty=pts3 ses=499 comm=\"x\" exe=\"/bin/x\" key=\"k\"\n")
            if cause == "output-breaks-inflight":
                # unterminated groups stay in the reassembler; a complete event with a LOWER sequence number is
                # handed over at once, its write fails while the others are still in flight (Close() flushes them)
                for k in range(4):
                    os.write(aw, (unterminated % (k, 30100 + k)).encode())
                os.write(aw, audit_line(50).encode())
            else:
                # a steady stream of unterminated groups: the first failing write happens when the oldest one
                # times out (2 s), with the younger ones still in flight
                for k in range(30):
                    try:
                        os.write(aw, (unterminated % (k, 30100 + k)).encode())
                    except OSError:
                        break
                    if proc.poll() is not None:
                        break
                    time.sleep(0.12)
        elif cause == "audit-malformed":
            if fl:
                fl.inject = b"this is not an audit record\n"
            else:
                os.write(aw, b"this is not an audit record\n")
        elif cause == "output-fails":
            os.write(sw, b"4242 Accepted password for bob from 10.0.0.1 port 22 ssh2\n")
        elif cause == "bad-login-pid":
            os.write(sw, b"0 Accepted password for bob from 10.0.0.1 port 22 ssh2\n")
        elif cause == "sigterm":
            proc.send_signal(signal.SIGTERM)
        elif cause == "sigint":
            proc.send_signal(signal.SIGINT)
        try:
            proc.wait(timeout=8)
            rec.update(exited=True, status=proc.returncode, ms=int((time.time() - t0) * 1000))
        except subprocess.TimeoutExpired:
            rec.update(exited=False, ms=8000)
    finally:
        if fl:
            fl.stop = True
            rec["flooded"] = fl.n
        if proc.poll() is None:
            proc.kill()
            proc.wait()
        try:
            if stalled is not None:
                stalled.close()
        except (OSError, NameError):
            pass
        for fd in (sw, aw, outreader):
            if fd is not None:
                try:
                    os.close(fd)
                except OSError:
                    pass
        errf.close()
        if blocker is not None:
            blocker.close()
        rec["stderr"] = open(os.path.join(d, "stderr.txt"), errors="replace").read()[-300:]
        if fl:
            fl.join(timeout=2)
        shutil.rmtree(d, ignore_errors=True)
    return rec


def run_c08(ctx):
    mc, vac = design(ctx)
    binp = build_daemon(ctx)
    scs = scenarios()
    reps = 1 if ctx.quick else 5
    recs = []
    idx = 0
    for _ in range(reps):
        # a few at a time: the flood scenarios are CPU hungry
        for i in range(0, len(scs), 4):
            batch = scs[i:i + 4]
            res = [None] * len(batch)
            ths = []
            for j, (c, l) in enumerate(batch):
                def work(j=j, c=c, l=l, n=idx + j):
                    res[j] = run_daemon_scenario(ctx, binp, n, c, l)
                t = threading.Thread(target=work)
                t.start()
                ths.append(t)
            for t in ths:
                t.join()
            recs += res
            idx += len(batch)
        # with the HTTP server enabled (fixed port 2112: one at a time)
        for c, l in (("sigterm", "http"), ("audit-malformed", "http"), ("sshd-eof", "http"), ("http-port-busy", "http"),
                     ("sshd-eof", "http-stalled"), ("sigterm", "http-stalled")):
            recs.append(run_daemon_scenario(ctx, binp, idx, c, l))
            idx += 1
    tp = ctx.path("trace.ndjson")
    with open(tp, "w") as f:
        for r in recs:
            f.write(json.dumps(r) + "\n")
    bad, nlines, vstates = sshdfam.validate(ctx, tp, "daemon", parts=1, module="PipelineTrace", cfg="PipelineTrace.cfg")
    unest = [b for b in bad if b["what"] == "ScenarioNotEstablished"]
    if len(unest) > len(recs) // 3:
        raise Infra("could not establish %d of %d daemon scenarios (%s)" % (len(unest), len(recs), unest[0]["rec"]))
    for b in bad:
        r = b["rec"]
        if b["what"] == "ScenarioNotEstablished":
            ctx.notes.append("daemon scenario %s/%s not established" % (r["cause"], r["load"]))
            continue
        ctx.violation("%s/%s/%s" % (b["what"], r["cause"], r["load"]),
                      "%s: cause %s under load '%s': exited=%s status=%s after %d ms (flooded %d audit lines); stderr: %s"
                      % (b["what"], r["cause"], r["load"], r["exited"], r["status"], r["ms"], r["flooded"],
                         r.get("stderr", "")[-200:]),
                      {"kind": "daemon-scenario", "cause": r["cause"], "load": r["load"], "observed": r})
    muts = [dict(recs[0], exited=False, ms=8000), dict(recs[1], status=0, cause="audit-malformed", exited=True)]
    mp = ctx.path("trace-selftest.ndjson")
    with open(mp, "w") as f:
        for i, m in enumerate(muts):
            m["id"] = i
            f.write(json.dumps(m) + "\n")
    mbad, _, _ = sshdfam.validate(ctx, mp, "daemonself", parts=1, module="PipelineTrace", cfg="PipelineTrace.cfg")
    if len({b["rec"]["id"] for b in mbad}) != len(muts):
        raise Infra("binding self-test: corrupted daemon observations accepted")
    return {
        "states": mc["distinct"], "transitions": mc["generated"], "traces_validated_against_impl": len(recs),
        "samples": [{k: r[k] for k in ("cause", "load", "exited", "status", "ms", "flooded")} for r in recs[:: max(1, len(recs) // 5)]][:5],
        "daemon_scenarios": len(scs), "repetitions": reps, "max_exit_ms": max(r["ms"] for r in recs),
        "vacuity_guard": "CtxAwareSend=FALSE violates %s" % vac["violated"],
        "binding_selftest_mutants_rejected": len(muts), "checker_cmd": mc["cmd"], "exhaustive": True,
    }


ASSUME08 = [
    "bounded time = 5 s from the cause to process exit, observed on the built binary with real FIFOs",
    "sustained load = a writer thread that writes valid audit records as fast as the pipe accepts them",
    "exit status: any non-zero status counts as failure status; signals also end with status 1 (context cancelled is "
    "reported as an error by errgroup.Wait), which the property permits",
]


# ----------------------------------------------------------------------------------------------- C10
def tree_cpu(pid):
    """utime + stime (clock ticks) of a process and its descendants."""
    stat = {}
    for e in os.listdir("/proc"):
        if not e.isdigit():
            continue
        try:
            f = open("/proc/%s/stat" % e).read()
        except OSError:
            continue
        rest = f[f.rindex(")") + 2:].split()
        stat[int(e)] = (int(rest[1]), int(rest[11]) + int(rest[12]))
    total, todo, seen = 0, [pid], set()
    while todo:
        q = todo.pop()
        if q in seen or q not in stat:
            continue
        seen.add(q)
        total += stat[q][1]
        todo += [c for c, (pp, _) in stat.items() if pp == q]
    return total


def run_script(binp, d, i, strace, rnd):
    sc = json.load(open(os.path.join(d, "script-%d.json" % i)))
    wd = os.path.join(d, "run-%d" % i)
    os.makedirs(wd, exist_ok=True)
    sp, ap = os.path.join(wd, "sshd-pipe"), os.path.join(wd, "audit-pipe")
    op = os.path.join(d, "out-%d.log" % i)
    # every other run appends to what an earlier run of the daemon left behind
    prior = ""
    if i % 2 == 1:
        prior = "".join(json.dumps({"type": "PriorRun", "n": k, "pad": "x" * rnd.randrange(1, 400)}) + "\n"
                        for k in range(rnd.randrange(1, 6)))
    with open(op, "w") as f:
        f.write(prior)
    with open(os.path.join(d, "prior-%d.txt" % i), "w") as f:
        f.write(prior)
    os.mkfifo(sp)
    os.mkfifo(ap)
    cmd = [binp, "--sshd-pipe-path", sp, "--auditd-pipe-path", ap, "--app-events-output", op]
    if strace:
        cmd = ["strace", "-f", "-qq", "-e", "trace=write", "-P", op, "-s", "1000000", "-o",
               os.path.join(d, "strace-%d.txt" % i)] + cmd
    errf = open(os.path.join(wd, "stderr.txt"), "w")
    proc = subprocess.Popen(cmd, stdout=errf, stderr=errf, env=dict(os.environ, NODE_NAME="verif-node"), cwd=wd)
    ok = False
    try:
        sw, aw = open_writer(sp, 10), open_writer(ap, 10)
        if sw is None or aw is None:
            return False
        os.set_blocking(sw, True)
        os.set_blocking(aw, True)

        def feed(fd, lines, burst):
            j = 0
            while j < len(lines):
                n = rnd.choice(burst)
                os.write(fd, ("\n".join(lines[j:j + n]) + "\n").encode())
                j += n
                if rnd.random() < 0.3:
                    time.sleep(rnd.random() * 0.002)
        # pads between pid and message as rsyslog's template may produce
        t1 = threading.Thread(target=feed, args=(sw, sc["sshd"], [1, 1, 2, 5]))
        t2 = threading.Thread(target=feed, args=(aw, sc["audit"], [1, 3, 10, 40]))
        order = [t1, t2]
        rnd.shuffle(order)
        for t in order:
            t.start()
        for t in order:
            t.join()
        # wait until the daemon has digested everything: both pipes drained, and then neither the output file nor the
        # CPU time of the daemon (and of strace around it) has moved for 0.6 s (load on the machine must not cut a run short)
        import fcntl, struct, termios

        def pending(fd):
            try:
                return struct.unpack("i", fcntl.ioctl(fd, termios.FIONREAD, b"\0\0\0\0"))[0]
            except OSError:
                return 0
        last, stable = (-1, -1), 0
        dl = time.time() + 30
        while time.time() < dl and stable < 12 and proc.poll() is None:
            cur = (os.path.getsize(op), tree_cpu(proc.pid))
            quiet = cur == last and pending(sw) == 0 and pending(aw) == 0
            stable = stable + 1 if quiet else 0
            last = cur
            time.sleep(0.05)
        ok = proc.poll() is None
        os.close(sw)
        os.close(aw)
    finally:
        if proc.poll() is None:
            proc.send_signal(signal.SIGTERM)
            try:
                proc.wait(timeout=5)
            except subprocess.TimeoutExpired:
                proc.kill()
                proc.wait()
        errf.close()
        shutil.rmtree(wd, ignore_errors=True)
    return ok


def run_c10(ctx):
    import random
    from checks import tracker
    mc, vac = design(ctx)
    sp = ctx.tlc("SshdProc", "SshdProc.cfg", workers=4, timeout=300, name="sshdproc")     # write-before-send
    nsim = 24 if ctx.quick else 160
    sim = ctx.tlc("TrackerSim", "TrackerSim.cfg", workers=1, timeout=900, simulate="num=%d" % nsim, depth=500,
                  overrides={"MaxRank": "1", "MaxClean": "0", "MaxT": "0", "WithBad": "FALSE", "MaxEv": "90",
                             "MaxLogins": "6"}, name="sim")
    hists = vlib.tlc_prints(sim["stdout"], "HIST")
    hp = ctx.path("hists.jsonl")
    tracker.write_hists(hp, hists)
    d = ctx.path("l3")
    os.makedirs(d, exist_ok=True)
    l3 = ctx.go_build("./cmd/l3")
    g = json.loads(ctx.run([l3, "-mode", "gen", "-in", hp, "-dir", d, "-seed", str(ctx.seed)]).stdout.strip().splitlines()[-1])
    binp = build_daemon(ctx)
    # a few daemons side by side (each with its own FIFOs, output file and strace); each script has its own generator
    import concurrent.futures
    with concurrent.futures.ThreadPoolExecutor(max_workers=4) as ex:
        oks = list(ex.map(lambda i: run_script(binp, d, i, True, random.Random(ctx.seed * 1000 + i)), range(g["scripts"])))
    okruns = sum(1 for o in oks if o)
    if okruns < g["scripts"] * 0.8:
        raise Infra("only %d of %d daemon runs could be carried out" % (okruns, g["scripts"]))
    tp = ctx.path("trace-l3.ndjson")
    a = json.loads(ctx.run([l3, "-mode", "analyse", "-in", hp, "-dir", d, "-out", tp, "-seed", str(ctx.seed)]).stdout.strip().splitlines()[-1])
    hs = tracker.split_trace(tp)
    bad, _, done = tracker.validate(ctx, hs, "l3", cfg="TrackerTraceL2.cfg")
    mons = ("CausalOrder", "WholeLines", "LoginLinesOnce", "ExactlyOnce", "Identity", "Silence")
    seen = set()
    for hidx, line, what in bad:
        if what not in mons or what in seen:
            continue
        seen.add(what)
        recs = tracker.hist_of(hs[hidx])
        last = recs[-1]
        ctx.violation(what, "%s violated by the output file of the built daemon (script %d: %d sshd lines and %d audit "
                      "record groups written concurrently): %d output lines, torn=%s, writes not one-line=%s, content left by an "
                      "earlier run still intact=%s; line kinds %s"
                      % (what, hidx, sum(1 for r in recs if r.get("k") == "login"),
                         sum(1 for r in recs if r.get("k") == "audit"), last.get("lines", 0), last.get("torn"),
                         last.get("badwrites"), last.get("priorok", True),
                         [(x["kind"], x["id"]) for x in last.get("stream", [])][:40]),
                      {"kind": "daemon-output", "script": hidx, "calls": recs[1:-1], "observed": last})
    # binding self-test
    muts = []
    for hh in hs[:4]:
        recs = tracker.hist_of(hh)
        st = recs[-1].get("stream", [])
        acts = [i for i, x in enumerate(st) if x["kind"] == "action"]
        if not acts:
            continue
        a1 = json.loads(json.dumps(recs)); s1 = a1[-1]["stream"]
        li = [i for i, x in enumerate(s1) if x["kind"] == "login" and x["id"] == s1[acts[0]]["id"]][0]
        s1.insert(acts[0] + 1, s1.pop(li)); muts.append(a1)                         # login line after its action
        a2 = json.loads(json.dumps(recs)); a2[-1]["torn"] = 1; muts.append(a2)     # a torn line
        a3 = json.loads(json.dumps(recs)); a3[-1]["stream"].append(dict(a3[-1]["stream"][li])); a3[-1]["lines"] += 1
        a3[-1]["writes"] += 1; muts.append(a3)                                      # a login line twice
    mh = []
    for i, m in enumerate(muts):
        m[0]["h"] = i
        mh.append([json.dumps(r, separators=(",", ":")) + "\n" for r in m])
    mbad, _, _ = tracker.validate(ctx, mh, "l3self", parts=1, cfg="TrackerTraceL2.cfg")
    if len({b[0] for b in mbad if b[2] in mons}) != len(muts) or not muts:
        raise Infra("binding self-test: corrupted daemon outputs accepted")
    outs = [tracker.hist_of(hh)[-1] for hh in hs]
    return {
        "states": mc["distinct"] + sp["distinct"], "transitions": mc["generated"] + sp["generated"],
        "traces_validated_against_impl": len(hs),
        "samples": [{"script": i, "output_lines": o.get("lines"), "writes_seen_by_strace": o.get("writes"),
                     "first_lines": [(x["kind"], x["id"]) for x in o.get("stream", [])][:12]} for i, o in enumerate(outs[:3])],
        "daemon_runs": len(hs), "output_lines": a["output_lines"], "user_actions": a["actions"],
        "write_calls_checked": sum(o.get("writes", 0) for o in outs),
        "binding_selftest_mutants_rejected": len(muts), "checker_cmd": sp["cmd"], "exhaustive": False,
    }


ASSUME10 = [
    "a write(2) on an O_APPEND regular file is atomic (Linux); the check establishes that every event is exactly one "
    "write call holding exactly one line (strace -e trace=write -P <output>)",
    "identity of a UserAction = exact equality of subjects, source and target with a UserLogin line of the same file",
    "scenarios: TLC-simulated histories of up to six concurrent sessions, both FIFOs fed concurrently in bursts",
]
