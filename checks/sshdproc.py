"""C05: SshdProc.tla (TLC, all scripts x interleavings, liveness) + every script realised on the real
sshd processor (cmd/sshdproc) and validated by SshdProcTrace.tla + the Login predicate over all
accepted/failed/mutant vectors (sshdfam)."""
import json
import random

import vlib
from vlib import Infra
from checks import sshdfam


def scripts(ctx):
    ex = ctx.tlc("SshdProc", "SshdProc_export.cfg", workers=1, timeout=300, name="scen")
    scs = sorted({json.dumps(s, sort_keys=True) for s in vlib.tlc_prints(ex["stdout"], "SCEN")})
    if len(scs) != 54:
        raise Infra("expected 54 scenario scripts, got %d" % len(scs))
    sp = ctx.path("scen.jsonl")
    open(sp, "w").write("\n".join(scs) + "\n")
    return scs, sp


def scenarios(ctx, sp, vp, reps):
    """Realise every script on the real processor and validate the recorded events with SshdProcTrace."""
    binp = ctx.go_build("./cmd/sshdproc")
    trp = ctx.path("trace-scen.ndjson")
    ctx.run([binp, "-scen", sp, "-vectors", vp, "-out", trp, "-seed", str(ctx.seed), "-reps", str(reps)], timeout=1800)
    sbad, slines, sstates = sshdfam.validate(ctx, trp, "scen", parts=1, module="SshdProcTrace",
                                             cfg="SshdProcTrace.cfg")
    lines = [json.loads(l) for l in open(trp)]
    runs, cur = {}, None
    for r in lines:
        if r["k"] == "reset":
            cur = r["idx"]
            runs[cur] = []
        runs[cur].append(r)
    return sbad, runs, slines, trp


def run(ctx):
    mc = ctx.tlc("SshdProc", "SshdProc.cfg", workers=4, timeout=300, name="mc")
    scs, sp = scripts(ctx)
    # vectors (lines for the scenarios, and the Login predicate over all of them)
    fams, preds = sshdfam.PROPS["C05"]
    vecs, vres = sshdfam.enumerate_vectors(ctx, fams, full=not ctx.quick)
    tp, stats = sshdfam.run_vectors(ctx, vecs, 3 if ctx.quick else 8, framed=True)
    bad, nlines, vstates = sshdfam.validate(ctx, tp, "vec")
    for b in bad:
        if b["what"] in preds or (b["what"] in ("FramedExact",) and b["rec"]["fam"] == "grammar"):
            r = b["rec"]
            ctx.violation("%s/%s/%s" % (b["what"], r["form"], r["fam"]),
                          "%s fails: pid=%r line=%r expected login %s, observed logins=%s events=%s err=%r" % (
                              b["what"], r["pid"], r["line"][:200], json.dumps(r["login"]), r["direct"]["logins"],
                              json.dumps(r["direct"]["events"])[:200], r["direct"]["err"]),
                          {"kind": "sshd-vector", "pid": r["pid"], "line": r["line"], "expected_login": r["login"],
                           "observed": r["direct"]})
    # scenarios on the real processor
    sbad, runs, slines, trp = scenarios(ctx, sp, ctx.path("vectors-vec.jsonl"), 3 if ctx.quick else 15)
    cbad = [b for b in sbad if b["what"] == "counter"]
    if cbad:
        ctx.notes.append("%d scenario run(s) break the counter rule of C19 (reported by the C19 check)" % len(cbad))
    sbad = [b for b in sbad if b["what"] != "counter"]
    for b in sbad:
        rr = runs[b["scen"]]
        ctx.violation("scenario/%s/%s" % (b["what"], json.dumps(rr[0]["sc"], sort_keys=True)),
                      "event %r of scenario %s is not a step of SshdProc: %s" % (
                          b["what"], json.dumps(rr[0]["sc"], sort_keys=True),
                          " ".join(x["k"] + ("(%s)" % x["ok"] if "ok" in x else "") for x in rr[1:])),
                      {"kind": "sshdproc-scenario", "scenario": rr[0]["sc"], "pid": rr[0]["pid"], "line": rr[0]["line"],
                       "events": rr[1:]})
    # through the whole worker (FIFO -> named-pipe ingester -> syslog ingester -> processor): a hand-off that has to wait
    # for a busy correlator (6.5 s, nobody cancels) still delivers the login - scenarios of Pipeline!WorkerScenarios
    wsc = ctx.tlc("PipelineMC", "Pipeline_scen.cfg", workers=1, timeout=120, name="workerscen")
    late = [s for s in vlib.tlc_prints(wsc["stdout"], "SCEN")[0] if s["state"] in ("sendinglate", "writefail")]
    if len(late) != 5:
        raise Infra("expected 4 late-receiver scenarios and the write-failure scenario, got %d" % len(late))
    wsp = ctx.path("late.json")
    json.dump(late, open(wsp, "w"))
    fd = ctx.path("fifos")
    import os
    os.makedirs(fd, exist_ok=True)
    wtp = ctx.path("trace-late.ndjson")
    ctx.run([ctx.go_build("./cmd/workers"), "-in", wsp, "-out", wtp, "-dir", fd, "-reps", "1"], timeout=600)
    wbad, _, _ = sshdfam.validate(ctx, wtp, "late", parts=1, module="PipelineTrace", cfg="PipelineTrace.cfg")
    for b in wbad:
        r = b["rec"]
        if b["what"] == "LoginDropped":
            ctx.violation("LoginDropped/variant%d" % r["cap"],
                          "a login (variant %d) blocked in the hand-off for %d ms while the correlator was busy - nobody "
                          "cancelled - was not delivered when the correlator received again" % (r["cap"], r["stall"]),
                          {"kind": "worker-scenario", "scenario": {"worker": "S", "state": "sendinglate", "cap": r["cap"],
                                                                   "stall": r["stall"]}, "observed": r})
        elif b["what"] == "WriteErrorLost":
            ctx.violation("WriteErrorLost", "the event of an accepted login could not be written, but the sshd worker (FIFO -> "
                          "named-pipe ingester -> syslog ingester -> processor) did not end with that error: returned=%s err=%r"
                          % (r["returned"], r["err"]),
                          {"kind": "worker-scenario", "scenario": {"worker": "S", "state": "writefail", "cap": 0, "stall": 0},
                           "observed": r})
        elif b["what"] == "StateNotReached":
            raise Infra("late-receiver scenario could not be established")
    # binding self-test: corrupted scenario traces must be rejected
    rnd = random.Random(ctx.seed)
    muts = []
    keys = [k for k, rr in runs.items() if any(x["k"] == "recv" for x in rr) and rr[0]["sc"]["cancelWhen"] == "never"]
    for k in keys[:6]:
        rr = json.loads(json.dumps(runs[k]))
        i = [j for j, x in enumerate(rr) if x["k"] == "recv"][0]
        a = [dict(x) for x in rr]; a.insert(i, dict(rr[i]))                   # forwarded twice
        b = [dict(x) for x in rr]; b[i] = dict(rr[i], same=False)             # not the written event
        c = [x for j, x in enumerate(rr) if j != i]                           # returned without forwarding
        w = [j for j, x in enumerate(rr) if x["k"] == "write"][0]
        d = [dict(x) for x in rr]; d[w], d[i] = d[i], d[w]                    # forwarded before the write
        muts += [a, b, c, d]
    keys = [k for k, rr in runs.items() if any(x["k"] == "write" and not x["ok"] for x in rr)]
    for k in keys[:3]:
        rr = json.loads(json.dumps(runs[k]))
        for x in rr:
            if x["k"] == "return":
                x["err"] = False                                             # error swallowed
        muts.append(rr)
    mp = ctx.path("trace-scen-selftest.ndjson")
    with open(mp, "w") as f:
        for n, rr in enumerate(muts):
            rr[0]["idx"] = n
            for x in rr:
                f.write(json.dumps(x) + "\n")
    mbad, _, _ = sshdfam.validate(ctx, mp, "scenself", parts=1, module="SshdProcTrace", cfg="SshdProcTrace.cfg")
    rej = {b["scen"] for b in mbad}
    if len(rej) != len(muts):
        raise Infra("binding self-test: %d of %d corrupted scenario traces accepted" % (len(muts) - len(rej), len(muts)))
    nself = sshdfam.selftest(ctx, tp, preds)
    sample = lambda rr: {"scenario": rr[0]["sc"], "line": rr[0]["line"][:160],
                         "events": [x["k"] + ("(%s)" % x["ok"] if "ok" in x else "") for x in rr[1:]]}
    return {
        "states": mc["distinct"], "transitions": mc["generated"],
        "traces_validated_against_impl": len(runs) + nlines,
        "samples": [sample(runs[k]) for k in list(runs)[:: max(1, len(runs) // 4)]][:4],
        "late_receiver_worker_runs": len(late), "scenario_scripts": len(scs), "scenario_runs": len(runs), "scenario_events": slines,
        "vector_records": nlines, "vectors": len(vecs),
        "binding_selftest_mutants_rejected": len(muts) + nself,
        "checker_cmd": mc["cmd"], "exhaustive": True,
    }


ASSUME = [
    "a worker that has not returned 40 ms after the event write is blocked in the hand-off; 'stays blocked' is observed "
    "for 300 ms",
    "the order of recorded events is the harness's own order (write and recv are logged under one mutex, return is "
    "logged by the harness 3 ms after the call returned)",
] + sshdfam.ASSUME
