"""C18: Health.tla (TLC: every interleaving of the programs of HealthMC: each response internally consistent,
response sets linearizable) + sequential histories (HealthSeq) replayed on the real handler + the programs
explored schedule by schedule on the real code + WaitForReady scripts; all records judged by HealthTrace.tla."""
import json

import vlib
from vlib import Infra
from checks import sshdfam


def run(ctx):
    states = trans = 0
    first = None
    for n in ("H1", "H2", "H3", "H4"):
        r = ctx.tlc("HealthMC", "Health_%s.cfg" % n, workers=4, timeout=600, name="health-" + n)
        states += r["distinct"]
        trans += r["generated"]
        first = first or r
    progs = vlib.tlc_prints(first["stdout"], "PROGS")[0]
    sq = ctx.tlc("HealthSeq", "HealthSeq.cfg", workers=1, timeout=600, name="seq",
                 overrides={"MaxLen": "4" if ctx.quick else "6"})
    hists = vlib.tlc_prints(sq["stdout"], "HIST")
    ws = ctx.tlc("HealthWait", "HealthWait.cfg", workers=1, timeout=300, name="wait")
    scripts = sorted({json.dumps(s, sort_keys=True) for s in vlib.tlc_prints(ws["stdout"], "SCEN")})
    binp = ctx.go_build("./cmd/healthh")

    def dump(name, items, raw=False):
        p = ctx.path(name)
        with open(p, "w") as f:
            for x in items:
                f.write((x if raw else json.dumps(x)) + "\n")
        return p

    outs = []
    st = {}
    for mode, inp in (("seq", dump("seq.jsonl", hists)), ("conc", dump("progs.jsonl", progs)),
                      ("wait", dump("wait.jsonl", scripts, raw=True))):
        op = ctx.path("trace-%s.ndjson" % mode)
        p = ctx.run([binp, "-mode", mode, "-in", inp, "-out", op, "-seed", str(ctx.seed),
                     "-cap", "60000" if ctx.quick else "600000"], timeout=3000)
        st[mode] = json.loads(p.stdout.strip().splitlines()[-1])
        outs.append(op)
    tp = ctx.path("trace-all.ndjson")
    with open(tp, "w") as f:
        for o in outs:
            f.write(open(o).read())
    bad, nlines, vstates = sshdfam.validate(ctx, tp, "health", module="HealthTrace", cfg="HealthTrace.cfg")
    for b in bad:
        r = b["rec"]
        if r["k"] == "seq":
            what = "after %s the handler answered %s" % ([(o["op"], o["c"]) for o in r["ops"]], r["resps"][-1])
        elif r["k"] == "conc":
            what = "program %s: %d schedule(s) produce responses %s" % (r["name"], r["count"], r["resps"])
        else:
            what = "WaitForReady script %s: events %s" % (r["script"], [e.get("state", e["e"]) for e in r["events"]])
        ctx.violation("%s/%s" % (b["what"], r["k"] + ("/" + r["name"] if r["k"] == "conc" else "")),
                      "%s: %s" % (b["what"], what[:700]), {"kind": "health-" + r["k"], "record": r})
    # binding self-test
    recs = [json.loads(l) for l in open(tp)]
    muts = []
    for r in recs:
        if r["k"] == "seq" and len(r["ops"]) == 3 and len(muts) < 3:
            m = json.loads(json.dumps(r)); m["resps"][-1]["code"] = 200 if m["resps"][-1]["code"] == 503 else 503
            muts.append(m)
    for r in recs:
        if r["k"] == "conc" and r["resps"] and len(muts) < 6:
            m = json.loads(json.dumps(r)); x = m["resps"][0]
            x["body"]["overall"] = "ok" if x["body"]["overall"] != "ok" else "not-ready"
            muts.append(m)
    for r in recs:
        if r["k"] == "wait" and len(muts) < 9 and any(e.get("state") == "pending" for e in r["events"]) \
                and not any(e.get("state") == "closed" for e in r["events"]) and r["script"]["cancel"] == "no" \
                and r["script"]["pre"] == [{"op": "add", "c": "a"}] \
                and {"op": "ready", "c": "a"} not in r["script"]["mid"]:
            m = json.loads(json.dumps(r))
            for e in m["events"]:
                if e.get("state") == "pending":
                    e["state"] = "closed"
            muts.append(m)
    for i, m in enumerate(muts):
        m["id"] = i
    mp = dump("trace-selftest.ndjson", muts)
    mbad, _, _ = sshdfam.validate(ctx, mp, "healthself", parts=1, module="HealthTrace", cfg="HealthTrace.cfg")
    if len({b["rec"]["id"] for b in mbad}) != len(muts) or len(muts) < 6:
        raise Infra("binding self-test: corrupted health records accepted (%d of %d rejected)"
                    % (len({b['rec']['id'] for b in mbad}), len(muts)))
    crecs = [r for r in recs if r["k"] == "conc"]
    return {
        "states": states, "transitions": trans,
        "traces_validated_against_impl": len(hists) + st["conc"]["schedules"] + len(scripts),
        "samples": [{"program": r["name"], "schedule": r["sched"], "responses": r["resps"], "schedules": r["count"]}
                    for r in crecs[:2]] + [recs[5]],
        "sequential_histories": len(hists), "schedules_executed": st["conc"]["schedules"],
        "per_program": st["conc"]["per_program"], "distinct_outcomes": st["conc"]["outcomes"],
        "wait_scripts": len(scripts), "binding_selftest_mutants_rejected": len(muts),
        "checker_cmd": first["cmd"], "exhaustive": all(p["exhaustive"] for p in st["conc"]["per_program"]),
    }


ASSUME = [
    "scheduling points are the GenericSyncMap lock acquisitions; the handler is called directly (httptest), not over TCP",
    "WaitForReady is observed with DefaultReadyCheckInterval = 2 ms and 150 ms settle times",
]
