"""sshd parser family: C06 C07 C11 C17 C19 (exploration driven by specs/SshdLog.tla).

  1. TLC enumerates the vectors of SshdLog.tla (forms x field classes, hostile names, mutation
     operators, noise classes, PID tokens) and checks the grammar's own consistency.
  2. harness/cmd/sshdvec concretises every vector several times (seeded), delivers the line to
     the REAL sshd processor directly and framed through the real syslog ingester, and records
     events, forwarded logins, counters, errors, panics.
  3. TLC evaluates the contract predicates of SshdTrace.tla on every record.
"""
import collections
import json
import os
import shutil
import subprocess

import vlib
from vlib import Infra

# property -> (families enumerated, predicates that decide it)
PROPS = {
    # the line reaches the processor through the syslog ingester in the daemon: the framed delivery is judged by the
    # property's own predicate too (C07 demands in addition that framed = direct)
    "C06": (["accepted", "failed"], ["Exact", "StreamExact", "FramedExact"]),
    "C07": (["accepted", "failed", "hostile", "mutants", "noise", "pids"],
            ["Framed", "FramedExact", "FramedUniversal", "FramedCounter", "FramedPeer", "FifoEq", "AuditNewline"]),
    "C11": (["accepted", "failed", "hostile", "mutants", "noise", "pids"], ["Universal", "StreamUniversal", "FramedUniversal", "FifoEq"]),
    "C17": (["hostile"], ["Peer", "StreamPeer", "FramedPeer"]),
    "C19": (["accepted", "failed", "hostile", "mutants", "noise", "pids"], ["Counter", "StreamCounter", "FramedCounter"]),
    "C05": (["accepted", "failed", "hostile", "mutants", "pids"], ["Login", "Universal", "StreamLoginStable"]),
}


def enumerate_vectors(ctx, fams, full):
    res = ctx.tlc("SshdLog", "SshdLog.cfg", workers=1, timeout=900, name="vectors",
                  overrides={"Families": "{" + ", ".join('"%s"' % f for f in fams) + "}",
                             "Full": "TRUE" if full else "FALSE"})
    vecs = vlib.tlc_prints(res["stdout"], "VEC")
    if len(vecs) != res["distinct"]:
        raise Infra("vector export incomplete: %d printed, %d states" % (len(vecs), res["distinct"]))
    return vecs, res


def run_vectors(ctx, vecs, conc, framed=True, name="vec", fifo_every=0):
    binp = ctx.go_build("./cmd/sshdvec")
    vp = ctx.path("vectors-%s.jsonl" % name)
    # the long-lived processor sees the forms mixed (seeded shuffle), not grouped as TLC printed them
    import random
    vecs = list(vecs)
    random.Random(ctx.seed).shuffle(vecs)
    with open(vp, "w") as f:
        for v in vecs:
            f.write(json.dumps(v) + "\n")
    tp = ctx.path("trace-%s.ndjson" % name)
    cmd = [binp, "-in", vp, "-out", tp, "-seed", str(ctx.seed), "-conc", str(conc),
           "-framed=%s" % ("true" if framed else "false")]
    if fifo_every:
        cmd += ["-fifodir", ctx.work, "-fifoevery", str(fifo_every)]
    p = ctx.run(cmd, timeout=3600)
    stats = json.loads(p.stdout.strip().splitlines()[-1])
    return tp, stats


def validate(ctx, trace_path, name, parts=None, module="SshdTrace", cfg="SshdTrace.cfg", timeout=1800):
    lines = open(trace_path).read().splitlines(keepends=True)
    parts = parts or max(1, min(vlib.NCPU - 2, len(lines) // 500 + 1))
    chunks = [lines[i::parts] for i in range(parts)]
    procs = []
    for i, ch in enumerate(chunks):
        if not ch:
            continue
        d = ctx.path("val-%s-%d" % (name, i))
        shutil.rmtree(d, ignore_errors=True)
        os.makedirs(d)
        for f in os.listdir(vlib.SPECS):
            if f.endswith(".tla") or f == cfg:
                shutil.copy(os.path.join(vlib.SPECS, f), d)
        with open(os.path.join(d, "trace.ndjson"), "w") as f:
            f.writelines(ch)
        env = dict(os.environ)
        env["JAVA_TOOL_OPTIONS"] = "-Xss64m -Xmx4g -XX:ParallelGCThreads=2"
        fo = open(os.path.join(d, "stdout.txt"), "w")
        cmd = ["timeout", "-k", "10", str(timeout), "tlc", "-workers", "1", "-metadir", os.path.join(d, "md"),
               "-config", cfg, module + ".tla"]
        procs.append((d, subprocess.Popen(cmd, cwd=d, stdout=fo, stderr=subprocess.STDOUT, env=env), fo, ch))
    bad, states = [], 0
    for d, p, fo, ch in procs:
        rc = p.wait()
        fo.close()
        outp = os.path.join(d, "stdout.txt")
        if rc in (124, 137):
            raise Infra("validation timed out in %s" % d)
        dn = vlib.tlc_prints(outp, "DONE")
        if not dn or dn[-1]["lines"] != len(ch):
            raise Infra("validation did not consume the whole trace in %s:\n%s" % (d, vlib.tail(outp, 40)))
        states += vlib.parse_tlc(outp)["distinct"]
        for b in vlib.tlc_prints(outp, "BAD"):
            b["rec"] = json.loads(ch[b["line"] - 1])
            bad.append(b)
    return bad, len(lines), states


def selftest(ctx, trace_path, preds):
    """Corrupt recorded observations; every corrupted record must be rejected by its predicate."""
    import random
    rnd = random.Random(ctx.seed)
    recs = [json.loads(l) for l in open(trace_path)]
    rnd.shuffle(recs)
    out = []
    want = []
    for r in recs:
        if len(out) >= 40:
            break
        d = r.get("direct")
        if not d or not d["events"]:
            continue
        m = json.loads(json.dumps(r))
        kind = rnd.randrange(6)
        if kind == 5 and r["fam"] == "hostile":          # recorded peer altered
            m["direct"]["events"][0]["source"]["value"] += "9"
            want.append("Peer")
        elif kind == 0 and r["fam"] == "grammar":          # a field value altered
            m["direct"]["events"][0]["subjects"]["loggedAs"] += "x"
            want.append("Exact")
        elif kind == 1:                                   # event emitted twice
            m["direct"]["events"].append(m["direct"]["events"][0])
            want.append("Universal")
        elif kind == 2:                                   # counter bumped twice
            if not m["direct"]["ctr"]:
                continue
            m["direct"]["ctr"][0]["n"] += 1
            want.append("Counter")
        elif kind == 3 and "framed" in r:                 # framed delivery differs
            m["framed"]["events"] = []
            want.append("Framed")
        elif kind == 4 and r["fam"] == "grammar" and r["login"].get("fwd"):
            m["direct"]["logins"][0]["pid"] += 1
            want.append("Login")
        else:
            continue
        m["vec"] = len(out)
        out.append(m)
    if len(out) < 5:
        raise Infra("binding self-test: could not build corrupted records")
    tp = ctx.path("trace-selftest.ndjson")
    with open(tp, "w") as f:
        for m in out:
            f.write(json.dumps(m) + "\n")
    bad, _, _ = validate(ctx, tp, "selftest", parts=1)
    got = collections.defaultdict(set)
    for b in bad:
        got[b["vec"]].add(b["what"])
    miss = [i for i, w in enumerate(want) if w not in got[i]]
    if miss:
        raise Infra("binding self-test: %d corrupted records were accepted (e.g. #%d should fail %s)"
                    % (len(miss), miss[0], want[miss[0]]))
    return len(out)


def short(rec):
    return {"form": rec["form"], "fam": rec["fam"], "pid": rec["pid"], "line": rec["line"][:300],
            "events": rec["direct"]["events"], "logins": rec["direct"]["logins"], "ctr": rec["direct"]["ctr"]}


def run(ctx, prop):
    fams, preds = PROPS[prop]
    vecs, res = enumerate_vectors(ctx, fams, full=not ctx.quick)
    conc = (4 if ctx.quick else 12)
    if len(vecs) > 60000:
        conc = 4
    tp, stats = run_vectors(ctx, vecs, conc, fifo_every=(1 if prop == "C07" else 7 if prop == "C11" else 0))
    bad, nlines, states = validate(ctx, tp, "main")
    nl_lines = 0
    if prop == "C07":
        # audit half: generated audit record lines with and without the trailing newline
        nb = ctx.go_build("./cmd/auditnl")
        ntp = ctx.path("trace-auditnl.ndjson")
        pr = ctx.run([nb, "-out", ntp, "-seed", str(ctx.seed), "-n", "400" if ctx.quick else "5000"], timeout=600)
        nl_lines = json.loads(pr.stdout.strip().splitlines()[-1])["lines"]
        nbad, _, _ = validate(ctx, ntp, "auditnl", parts=2)
        for b in nbad:
            r = b["rec"]
            ctx.violation("AuditNewline", "audit record line parses differently with its trailing newline: %r (errors %s / %s)"
                          % (r["line"][:300], r["err1"], r["err2"]), {"kind": "audit-line", "line": r["line"]})
    if prop == "C06":
        # "... this node's name and machine ID": three short runs of the built daemon (NODE_NAME set / empty / unset)
        from checks import pipeline
        binp = pipeline.build_daemon(ctx)
        ttp = ctx.path("trace-target.ndjson")
        with open(ttp, "w") as f:
            for i, envv in enumerate(("verif-node-7", "", None)):
                f.write(json.dumps(pipeline.run_target_probe(ctx, binp, i, envv)) + "\n")
        tbad, _, _ = validate(ctx, ttp, "target", parts=1)
        for b in tbad:
            r = b["rec"]
            if r["events"] < 0:
                raise Infra("the daemon did not open its pipes for the target probe")
            ctx.violation("Target/%s" % r["env"],
                          "with NODE_NAME %s the built daemon wrote %d events for %d sshd lines with target hosts %s and machine "
                          "ids %s; expected host %r and machine id %r" % (r["env"], r["events"], r["sent"], sorted(set(r["hosts"])),
                                                                          sorted(set(r["mids"])), r["wanthost"], r["wantmid"]),
                          {"kind": "daemon-target", "record": r})
    nscen = 0
    if prop == "C19":
        # the counter rule on every path of one line through the worker (SshdProc scripts: write failure, hand-off
        # completed / abandoned on cancel / still blocked), for every message form
        from checks import sshdproc
        scs, sp = sshdproc.scripts(ctx)
        sbad, sruns, slines, _ = sshdproc.scenarios(ctx, sp, ctx.path("vectors-vec.jsonl"), 2 if ctx.quick else 10)
        nscen = len(sruns)
        seen = set()
        for b in sbad:
            rr = sruns[b["scen"]]
            key = json.dumps(rr[0]["sc"], sort_keys=True) + rr[0].get("form", "")
            if b["what"] != "counter" or key in seen:
                continue
            seen.add(key)
            ret = [x for x in rr if x["k"] == "return"]
            ctx.violation("ScenarioCounter/%s" % key,
                          "an emitted UserLogin event was not counted exactly once under its outcome: script %s, line %r: "
                          "%s; counter moved by %s (label %r)" % (
                              json.dumps(rr[0]["sc"], sort_keys=True), rr[0]["line"][:160],
                              " ".join(x["k"] + ("(%s)" % x["ok"] if "ok" in x else "") for x in rr[1:]),
                              ret[0].get("ctr") if ret else "?", ret[0].get("ctrlabel") if ret else "?"),
                          {"kind": "sshdproc-scenario", "scenario": rr[0]["sc"], "pid": rr[0]["pid"], "line": rr[0]["line"],
                           "events": rr[1:]})
    # the binding self-test needs well-behaved records to corrupt: its verdict is looked at after the violations
    nself, self_err = 0, None
    try:
        nself = selftest(ctx, tp, preds)
    except Infra as e:
        self_err = e
    mine = [b for b in bad if b["what"] in preds]
    groups = collections.defaultdict(list)
    for b in mine:
        groups[(b["what"], b["rec"]["form"], b["rec"]["fam"])].append(b)
    mine = [b for b in mine if "form" in b["rec"]]
    for (what, form, fam), bs in sorted(groups.items()):
        r = bs[0]["rec"]
        ob = r["stream"] if what.startswith("Stream") and r.get("stream") else r["direct"]
        where = (" [delivered to the ONE long-lived processor that sees every line of this run in turn; the same line "
                 "on a fresh processor is judged separately]" if what.startswith("Stream") else "")
        ctx.violation("%s/%s/%s" % (what, form, fam),
                      "%s fails for %d concretised vectors of form %s (%s)%s; e.g. pid=%r line=%r -> events=%s logins=%s ctr=%s framed=%s"
                      % (what, len(bs), form, fam, where, r["pid"], r["line"][:200], json.dumps(ob["events"])[:300],
                         ob["logins"], ob["ctr"],
                         json.dumps((r.get("framed") or {}).get("events"))[:200]),
                      {"kind": "sshd-vector", "predicate": what, "pid": r["pid"], "line": r["line"], "pad": r["pad"],
                       "expected_event": r["event"], "expected_login": r["login"], "observed": r["direct"],
                       "observed_framed": r.get("framed"), "observed_stream": r.get("stream")})
    if self_err is not None:
        if not ctx.violations:
            raise self_err
        ctx.notes.append("binding self-test not conclusive on this tree: %s" % self_err)
    others = sorted({b["what"] for b in bad if b["what"] not in preds})
    if others:
        ctx.notes.append("predicates of other properties failed on these records: " + ", ".join(others))
    # coverage numbers
    emitting, kwlines = set(), set()
    nrec = 0
    samples = []
    for l in open(tp):
        r = json.loads(l)
        nrec += 1
        if r["direct"]["events"]:
            emitting.add(r["vec"])
        if r["direct"]["ctr"]:
            kwlines.add(r["vec"])
        if len(samples) < 3 and nrec % 997 == 1:
            samples.append(short(r))
    cov = {
        "evaluations": nrec,
        "distinct_nontrivial": len(emitting if prop != "C11" else kwlines | emitting),
        "rule": "vectors enumerated by TLC from SshdLog.tla (families %s, Full=%s), each concretised %d times with seeded "
                "class values and delivered directly and framed; a vector is non-trivial when the real processor "
                "emitted an event for it%s; distinct = distinct TLC vectors" % (
                    ",".join(fams), not ctx.quick, conc,
                    " or reached a keyword branch (counter bumped)" if prop == "C11" else ""),
        "samples": samples,
        "vectors": len(vecs), "tlc_vector_states": res["distinct"],
        "records_validated_by_tlc": nlines, "trace_validation_tlc_states": states,
        "framed_deliveries": stats["framed"], "fifo_deliveries": stats.get("fifo", 0), "events_emitted": stats["events"],
        "audit_lines_with_and_without_newline": nl_lines,
        "predicates": preds, "binding_selftest_mutants_rejected": nself,
        "emitting_by_form": stats["emitting"],
        "exhaustive": False,
    }
    cov["rule"] += "; every line is also delivered to ONE long-lived processor (one registry and event sink for the whole run)"
    if nscen:
        cov["worker_scenario_runs_for_counter_rule"] = nscen
    return cov


ASSUME = [
    "the input domain is covered by field classes x seeded concretisation, not by all strings (DESIGN.md section 9)",
    "expectations are built by SshdLog.tla from the same tokens as the line; the harness only substitutes tokens",
    "target (node name, machine id), timestamp window and audit id presence are checked by the harness (tsok/tgtok/idok)",
]
