"""C20: DirReader.tla (TLC: the real offset/lastSz tailing algorithm delivers exactly the ideal sequence for every
sequence of append / partial / complete / rotate / truncate / create up to MaxOps over eight initial directory
contents; the pinned variants violate it) + every scenario replayed on the real LogDirReader over an in-memory file
system (os.File seek semantics) and, for the initial ordering, over real files; deliveries judged by TLC."""
import json
import os

import vlib
from vlib import Infra
from checks import sshdfam


def run(ctx):
    maxops = 4 if ctx.quick else 6
    mc = ctx.tlc("DirReader", "DirReader.cfg", timeout=1800, name="mc", overrides={"MaxOps": str(maxops + 1)})
    v1 = ctx.tlc("DirReader", "DirReader.cfg", timeout=600, name="vacuity-lastsz", expect="violation",
                 overrides={"FixLastSz": "FALSE"})
    v2 = ctx.tlc("DirReader", "DirReader.cfg", timeout=600, name="vacuity-sort", expect="violation",
                 overrides={"NumericSort": "FALSE"})
    ex = ctx.tlc("DirReaderMC", "DirReader_export.cfg", workers=1, timeout=1800, name="scen",
                 overrides={"MaxOps": str(maxops)})
    scs = vlib.tlc_prints(ex["stdout"], "SCEN")
    inits = vlib.tlc_prints(ex["stdout"], "INITS")[0]
    if len(scs) != ex["distinct"]:
        raise Infra("scenario export incomplete")
    sp, ip = ctx.path("scen.jsonl"), ctx.path("inits.json")
    with open(sp, "w") as f:
        for s in scs:
            f.write(json.dumps(s) + "\n")
    json.dump(inits, open(ip, "w"))
    binp = ctx.go_build("./cmd/dirreaderh")
    rd = ctx.path("real")
    os.makedirs(rd, exist_ok=True)
    tp = ctx.path("trace.ndjson")
    p = ctx.run([binp, "-in", sp, "-inits", ip, "-out", tp, "-seed", str(ctx.seed), "-dir", rd], timeout=3000)
    st = json.loads(p.stdout.strip().splitlines()[-1])
    bad, nlines, vstates = sshdfam.validate(ctx, tp, "dirreader", module="DirReaderTrace", cfg="DirReaderTrace.cfg")
    groups = {}
    for b in bad:
        r = b["rec"]
        key = "%s/%s/init%d/%s" % (b["what"], r["mode"], r["init"], "-".join(o["op"] for o in r["ops"][:3]))
        groups.setdefault((b["what"], r["mode"]), []).append((key, r))
    for (what, mode), items in groups.items():
        items.sort(key=lambda x: len(x[1]["ops"]))
        key, r = items[0]
        ctx.violation(key, "%s (%s file system): %d scenarios; shortest: initial contents #%d %s, operations %s -> delivered %s %s"
                      % (what, mode, len(items), r["init"], json.dumps(inits[r["init"] - 1]),
                         [(o["op"], o.get("tok")) for o in r["ops"]], r["delivered"], r["err"]),
                      {"kind": "dirreader-scenario", "init": inits[r["init"] - 1], "ops": r["ops"], "observed": r})
    recs = [json.loads(l) for l in open(tp)]
    muts = []
    for r in recs:
        if len(r["delivered"]) >= 2 and len(muts) < 6:
            a = dict(r, delivered=r["delivered"][:-1]); muts.append(a)
            b = dict(r, delivered=[r["delivered"][1], r["delivered"][0]] + r["delivered"][2:]); muts.append(b)
    mp = ctx.path("trace-selftest.ndjson")
    with open(mp, "w") as f:
        for i, m in enumerate(muts):
            m["id"] = i
            f.write(json.dumps(m) + "\n")
    mbad, _, _ = sshdfam.validate(ctx, mp, "dirself", parts=1, module="DirReaderTrace", cfg="DirReaderTrace.cfg")
    if len({b["rec"]["id"] for b in mbad}) != len(muts) or not muts:
        raise Infra("binding self-test: corrupted deliveries accepted")
    return {
        "states": mc["distinct"], "transitions": mc["generated"], "traces_validated_against_impl": len(recs),
        "samples": [{"init": inits[r["init"] - 1], "ops": [(o["op"], o.get("tok")) for o in r["ops"]],
                     "delivered": r["delivered"], "mode": r["mode"]} for r in recs[len(recs) // 2:len(recs) // 2 + 3]],
        "scenarios": len(scs), "max_ops": maxops, "lines_delivered": st["lines_delivered"],
        "vacuity_guard": "FixLastSz=FALSE violates %s; NumericSort=FALSE violates %s" % (v1["violated"], v2["violated"]),
        "binding_selftest_mutants_rejected": len(muts), "checker_cmd": mc["cmd"], "exhaustive": True,
    }


ASSUME = [
    "each file-system event is processed before the next change (a barrier event is sent after every operation)",
    "the in-memory file system has os.File semantics (seeking past the end is allowed, reads there return EOF)",
    "lines whose token number is divisible by 3 are longer than the 4096-byte read buffer",
]
