"""Registry: property id -> check function(ctx) -> exit code."""
from checks import tracker


def _tracker(prop):
    def f(ctx):
        cov = tracker.run_family(ctx, prop)
        return ctx.finish("model_checking", cov, tracker.ASSUME)
    return f


REGISTRY = {}
for _p in ("C01", "C02", "C04", "C09", "C14", "C16"):
    REGISTRY[_p] = _tracker(_p)
