"""Registry: property id -> check function(ctx) -> exit code."""
from checks import tracker, sshdfam, sshdproc, conc, healthchk, framingchk, pipeline, dirreaderchk, reasmchk


def _tracker(prop):
    def f(ctx):
        cov = tracker.run_family(ctx, prop)
        return ctx.finish("model_checking", cov, tracker.ASSUME)
    return f


REGISTRY = {}
for _p in ("C01", "C02", "C04", "C09", "C14", "C16"):
    REGISTRY[_p] = _tracker(_p)


def _sshd(prop):
    def f(ctx):
        cov = sshdfam.run(ctx, prop)
        return ctx.finish("exploration", cov, sshdfam.ASSUME)
    return f


for _p in ("C06", "C07", "C11", "C17", "C19"):
    REGISTRY[_p] = _sshd(_p)


def _c05(ctx):
    cov = sshdproc.run(ctx)
    return ctx.finish("model_checking", cov, sshdproc.ASSUME)


REGISTRY["C05"] = _c05


def _c03(ctx):
    cov = conc.run(ctx)
    return ctx.finish("model_checking", cov, conc.ASSUME)


REGISTRY["C03"] = _c03


def _c18(ctx):
    cov = healthchk.run(ctx)
    return ctx.finish("model_checking", cov, healthchk.ASSUME)


REGISTRY["C18"] = _c18


def _c12(ctx):
    cov = framingchk.run(ctx)
    return ctx.finish("model_checking", cov, framingchk.ASSUME)


REGISTRY["C12"] = _c12


def _c13(ctx):
    cov = pipeline.run_c13(ctx)
    return ctx.finish("model_checking", cov, pipeline.ASSUME13)


def _c08(ctx):
    cov = pipeline.run_c08(ctx)
    return ctx.finish("model_checking", cov, pipeline.ASSUME08)


REGISTRY["C13"] = _c13
REGISTRY["C08"] = _c08


def _c20(ctx):
    cov = dirreaderchk.run(ctx)
    return ctx.finish("model_checking", cov, dirreaderchk.ASSUME)


REGISTRY["C20"] = _c20


def _c15(ctx):
    cov = reasmchk.run(ctx)
    return ctx.finish("model_checking", cov, reasmchk.ASSUME)


REGISTRY["C15"] = _c15


def _c10(ctx):
    cov = pipeline.run_c10(ctx)
    return ctx.finish("model_checking", cov, pipeline.ASSUME10)


REGISTRY["C10"] = _c10
