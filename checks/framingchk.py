"""C12: Framing.tla (TLC: every stream over {x,b,l,d} up to MaxLen, every cut into write calls, every call-back
error position, every read granularity: only whole records, in order, stop at first error, EOF as error,
termination) + every scenario realised through a real FIFO and the real NamedPipeIngester, validated by TLC."""
import json
import os

import vlib
from vlib import Infra
from checks import sshdfam


def run(ctx):
    maxlen = 4 if ctx.quick else 5
    mc = ctx.tlc("Framing", "Framing.cfg", timeout=1800, name="mc",
                 overrides={"MaxLen": str(maxlen), "Syms": '{"x", "l", "d"}' if ctx.quick else '{"x", "b", "l", "d"}'})
    ex = ctx.tlc("Framing", "Framing_export.cfg", workers=1, timeout=1800, name="scen",
                 overrides={"MaxLen": str(maxlen)})
    scs = vlib.tlc_prints(ex["stdout"], "SCEN")
    if len(scs) != ex["distinct"]:
        raise Infra("scenario export incomplete")
    if not ctx.quick:
        # longer streams: a seeded sample of (stream, cuts, errAt) beyond the exhaustive bound
        import random
        rnd = random.Random(ctx.seed)
        for _ in range(20000):
            n = rnd.randint(6, 9)
            st = [rnd.choice("xxbld") for _ in range(n)]
            cuts = sorted(rnd.sample(range(1, n), rnd.randint(0, n - 1)))
            nrec = st.count("d")
            scs.append({"stream": st, "cuts": cuts, "errAt": rnd.randint(0, nrec)})
    # the writer pauses: a sample of the scenarios whose cuts fall inside a record is run again with a silence after
    # every write call (longer than any polling interval a reader might use; a second, longer one in the thorough tier)
    import random
    prnd = random.Random(ctx.seed + 1)
    inside = [s for s in scs if any(c > 0 and s["stream"][c - 1] != "d" for c in s["cuts"])]
    for pause, n in ((150, 64 if ctx.quick else 600), (1100, 12 if ctx.quick else 48), (11000, 0 if ctx.quick else 8)):
        for s in prnd.sample(inside, min(n, len(inside))):
            scs.append(dict(s, pause=pause))
    # a slow consumer: the call-back takes a few ms while the writer has long finished and closed (what was read ahead
    # must still be delivered, in order, before the end of the stream is reported)
    multi = [s for s in scs if s["stream"].count("d") >= 2 and not s.get("pause")]
    for s in prnd.sample(multi, min(64 if ctx.quick else 600, len(multi))):
        scs.append(dict(s, cuts=[], slowcb=4))
    sp = ctx.path("scen.jsonl")
    with open(sp, "w") as f:
        for s in scs:
            f.write(json.dumps(s) + "\n")
    binp = ctx.go_build("./cmd/framing")
    fd = ctx.path("fifos")
    os.makedirs(fd, exist_ok=True)
    tp = ctx.path("trace.ndjson")
    p = ctx.run([binp, "-in", sp, "-out", tp, "-dir", fd, "-seed", str(ctx.seed), "-workers", "8"], timeout=3000)
    st = json.loads(p.stdout.strip().splitlines()[-1])
    bad, nlines, vstates = sshdfam.validate(ctx, tp, "framing", module="FramingTrace", cfg="FramingTrace.cfg")
    for b in bad:
        r = b["rec"]
        ctx.violation("%s" % b["what"],
                      "%s: stream %s cut at %s%s, call-back error at record %d: the ingester called back with %s and "
                      "returned %s (%s)" % (b["what"], "".join(r["stream"]), r["cuts"],
                                            (" with %d ms of silence after every write" % r["pause"] if r.get("pause") else "")
                                            + (" with a call-back that takes %d ms" % r["slowcb"] if r.get("slowcb") else ""),
                                            r["errAt"], r["calls"], r["ret"], r["rets"]),
                      {"kind": "framing-scenario", "scenario": {"stream": r["stream"], "cuts": r["cuts"],
                                                                 "errAt": r["errAt"], "pause": r.get("pause", 0),
                                                                 "slowcb": r.get("slowcb", 0)},
                       "observed": r})
    # binding self-test
    recs = [json.loads(l) for l in open(tp)]
    muts = []
    badids = {b["rec"]["id"] for b in bad}
    for r in recs:
        if len(muts) >= 9:
            break
        if len(r["calls"]) >= 2 and r["errAt"] == 0 and r["id"] not in badids:
            a = json.loads(json.dumps(r)); a["calls"] = a["calls"][:-1]; muts.append(a)          # a record lost
            b = json.loads(json.dumps(r)); b["calls"][0], b["calls"][1] = b["calls"][1], b["calls"][0]; muts.append(b)
            c = json.loads(json.dumps(r)); c["ret"] = "nil"; muts.append(c)                      # EOF ignored
    for i, m in enumerate(muts):
        m["id"] = i
    mp = ctx.path("trace-selftest.ndjson")
    with open(mp, "w") as f:
        for m in muts:
            f.write(json.dumps(m) + "\n")
    mbad, _, _ = sshdfam.validate(ctx, mp, "framingself", parts=1, module="FramingTrace", cfg="FramingTrace.cfg")
    if len({b["rec"]["id"] for b in mbad}) != len(muts) or not muts:
        raise Infra("binding self-test: corrupted framing records accepted")
    return {
        "states": mc["distinct"], "transitions": mc["generated"],
        "traces_validated_against_impl": len(recs),
        "samples": [{"stream": "".join(r["stream"]), "cuts": r["cuts"], "errAt": r["errAt"], "calls": r["calls"],
                     "ret": r["ret"], "delimiter_byte": r["delim"]} for r in recs[len(recs) // 3:len(recs) // 3 + 3]],
        "scenarios": len(scs), "callbacks_observed": st["callbacks"], "max_stream_len_exhaustive": maxlen,
        "binding_selftest_mutants_rejected": len(muts), "checker_cmd": mc["cmd"], "exhaustive": True,
    }


ASSUME = [
    "bytes are abstracted to symbols x (1-3 printable bytes), b (binary incl. NUL/0xFF), l (4097-13000 bytes, longer "
    "than bufio's buffer), d (the delimiter; '\\n' or, in a quarter of the runs, NUL / ';' / 0xFF)",
    "the writer waits after each write until FIONREAD on the FIFO reports 0 (the reader consumed the chunk)",
]
