INIT FInit
NEXT Unchanged
CONSTANTS
  MaxLen = 4
  Syms = {"x", "b", "l", "d"}
INVARIANTS EmitScenario
CHECK_DEADLOCK FALSE
