SPECIFICATION TSpec
CONSTANTS
  Pids = {1, 2, 3, 4}
  Sessions = {"s1", "s2", "s3", "s4"}
  BugRebind = FALSE
  BugKeepOnFlush = FALSE
CHECK_DEADLOCK FALSE
