------------------------------ MODULE TrackerLin ------------------------------
(***************************************************************************)
(* Validation of the outcomes of controlled-schedule executions of the     *)
(* REAL sessionTracker (harness/cmd/trackerconc): one record per distinct  *)
(* outcome of a program, with the number of schedules that produced it.    *)
(* C03 holds for a record iff its observation is the observation of some   *)
(* sequential order of the program's calls (TrackerCore!SeqObsOf), the     *)
(* execution neither deadlocked, hung nor panicked.                        *)
(***************************************************************************)
EXTENDS TrackerCore, Json

Trace == ndJsonDeserialize("trace.ndjson")

VARIABLES l, nbad
tvars == <<l, nbad>>

ToSet(q) == {q[i] : i \in 1..Len(q)}

ObservedOf(r) ==
    [per |-> PerSession(r.outs),
     mw  |-> \E u \in ToSet(r.st.sess) : ~u.bound /\ u.pid \in {w.pid : w \in ToSet(r.st.wait)}]

StateOf(r) == [sess |-> ToSet(r.st.sess), wait |-> ToSet(r.st.wait)]

Checks(r) ==
    IF r.deadlock THEN {"Deadlock"}
    ELSE IF r.hang THEN {"Hang"}
    ELSE IF r.panic # "" THEN {"Panic"}
    ELSE LET res == SeqResultsOf(r.threads, r.post)
             obs == ObservedOf(r)
         IN (IF obs \in {x.obs : x \in res} THEN {} ELSE {"Linearizable"})
            \cup (IF obs.mw THEN {"MutualWait"} ELSE {})
            \cup (IF [obs |-> obs, st |-> StateOf(r)] \in res THEN {} ELSE {"StateDiverges"})

TInit == l = 1 /\ nbad = 0

Step ==
    /\ l <= Len(Trace)
    /\ LET r == Trace[l]
           bad == Checks(r)
       IN /\ \A b \in bad : PrintT(<<"BAD", ToJson([prog |-> r.prog, line |-> l, what |-> b, count |-> r.count])>>)
          /\ nbad' = nbad + Cardinality(bad)
    /\ l' = l + 1
    /\ (l' = Len(Trace) + 1) => PrintT(<<"DONE", ToJson([lines |-> Len(Trace), bad |-> nbad'])>>)

TSpec == TInit /\ [][Step]_tvars
=============================================================================
