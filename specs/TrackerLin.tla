------------------------------ MODULE TrackerLin ------------------------------
(***************************************************************************)
(* Validation of the outcomes of controlled-schedule executions of the     *)
(* REAL sessionTracker (harness/cmd/trackerconc): one record per distinct  *)
(* outcome of a program, with the number of schedules that produced it.    *)
(* C03 holds for a record iff its observation is the observation of some   *)
(* sequential order of the program's calls (TrackerCore!SeqObsOf) THAT     *)
(* RESPECTS THE REAL-TIME PRECEDENCE observed in that execution (r.hb: a   *)
(* call that had left the tracker before another one was let in comes      *)
(* first -- linearizability, not just sequential consistency), and the     *)
(* execution neither deadlocked, hung nor panicked.                        *)
(***************************************************************************)
EXTENDS TrackerCore, Json

Trace == ndJsonDeserialize("trace.ndjson")

VARIABLES l, nbad
tvars == <<l, nbad>>

ToSet(q) == {q[i] : i \in 1..Len(q)}

ObservedOf(r) ==
    [per |-> PerSession(r.outs),
     mw  |-> \E u \in ToSet(r.st.sess) : ~u.bound /\ u.pid \in {w.pid : w \in ToSet(r.st.wait)}]

StateOf(r) == [sess |-> ToSet(r.st.sess), wait |-> ToSet(r.st.wait)]

\* thread t may take its next call only when every call recorded as preceding it has been taken
HBOk(hb, ix, t) == \A h \in hb : (h[3] = t /\ h[4] = ix[t]) => ix[h[1]] > h[2]

RECURSIVE LinOutcomes(_, _, _, _, _, _)
LinOutcomes(prog, post, s0, o, ix, hb) ==
    IF \A t \in 1..Len(prog) : ix[t] > Len(prog[t]) THEN SeqFold(s0, o, post)
    ELSE LET ready == {t \in 1..Len(prog) : ix[t] <= Len(prog[t]) /\ HBOk(hb, ix, t)} IN
         UNION { UNION { LinOutcomes(prog, post, r.st, o \o r.outs, [ix EXCEPT ![t] = @ + 1], hb)
                         : r \in SeqApply(s0, prog[t][ix[t]]) } : t \in ready }

LinResultsOf(prog, post, hb) == LinOutcomes(prog, post, InitSt, <<>>, [t \in 1..Len(prog) |-> 1], hb)

Checks(r) ==
    IF r.deadlock THEN {"Deadlock"}
    ELSE IF r.hang THEN {"Hang"}
    ELSE IF r.panic # "" THEN {"Panic"}
    ELSE LET res == LinResultsOf(r.threads, r.post, ToSet(r.hb))
             obs == ObservedOf(r)
         IN (IF obs \in {x.obs : x \in res} THEN {} ELSE {"Linearizable"})
            \cup (IF obs.mw THEN {"MutualWait"} ELSE {})
            \cup (IF [obs |-> obs, st |-> StateOf(r)] \in res THEN {} ELSE {"StateDiverges"})

TInit == l = 1 /\ nbad = 0

Step ==
    /\ l <= Len(Trace)
    /\ LET r == Trace[l]
           bad == Checks(r)
       IN /\ \A b \in bad : PrintT(<<"BAD", ToJson([prog |-> r.prog, line |-> l, what |-> b, count |-> r.count])>>)
          /\ nbad' = nbad + Cardinality(bad)
    /\ l' = l + 1
    /\ (l' = Len(Trace) + 1) => PrintT(<<"DONE", ToJson([lines |-> Len(Trace), bad |-> nbad'])>>)

TSpec == TInit /\ [][Step]_tvars
=============================================================================
