---------------------------- MODULE DirReaderTrace ----------------------------
(***************************************************************************)
(* Validation of what the REAL LogDirReader delivered on Lines() for every *)
(* scenario of DirReader.tla (harness/cmd/dirreaderh): the tokens of the   *)
(* delivered lines must be exactly DirReaderCore!IdealOf(init, ops).       *)
(***************************************************************************)
EXTENDS DirReaderCore

Trace == ndJsonDeserialize("trace.ndjson")
VARIABLES l, nbad
tvars == <<l, nbad>>

Checks(r) ==
    (IF r.stuck THEN {"Stuck"} ELSE {})
    \cup (IF r.err # "" /\ ~r.stuck THEN {"Error"} ELSE {})
    \cup (IF ~r.stuck /\ r.delivered # IdealOf(r.init, r.ops) THEN {"ExactlyOnceInOrder"} ELSE {})

TInit == l = 1 /\ nbad = 0
Step ==
    /\ l <= Len(Trace)
    /\ LET r == Trace[l]
           bad == Checks(r)
       IN /\ \A b \in bad : PrintT(<<"BAD", ToJson([rec |-> r.id, line |-> l, what |-> b])>>)
          /\ nbad' = nbad + Cardinality(bad)
    /\ l' = l + 1
    /\ (l' = Len(Trace) + 1) => PrintT(<<"DONE", ToJson([lines |-> Len(Trace), bad |-> nbad'])>>)
TSpec == TInit /\ [][Step]_tvars
=============================================================================
