------------------------------ MODULE ReasmTrace ------------------------------
(***************************************************************************)
(* Validation of what the REAL audit processor (Auditd.Read: parser,       *)
(* go-libaudit reassembler, coalescer, call-back, correlator with one      *)
(* pre-correlated session) did for every scenario of ReasmGen              *)
(* (harness/cmd/reasm) against ReasmCore!Run.                              *)
(***************************************************************************)
EXTENDS ReasmCore

Trace == ndJsonDeserialize("trace.ndjson")
VARIABLES l, nbad
tvars == <<l, nbad>>

Evs(q) == [i \in 1..Len(q) |-> q[i].ev]
HasE(shape) == \E i \in 1..Len(shape) : shape[i] = "E"

Checks(r) ==
    LET sc == [shapes |-> r.shapes, order |-> r.order, fault |-> r.fault]
        exp == Run(sc)
        nw == Written(sc)
        want == WrittenEvs(sc)
        got == r.obs.events
        pre == [i \in 1..(IF Len(got) < nw THEN Len(got) ELSE nw) |-> got[i].ev]
        rest == [i \in 1..(Len(got) - Len(pre)) |-> got[Len(pre) + i].ev]
        pending == DOMAIN exp.l \cup (IF exp.ret = "write" THEN {} ELSE {})
    IN (IF r.obs.ret = exp.ret THEN {} ELSE {"Return"})
       \* events handed over and written, in order.  After a ONE-SHOT write failure the remaining groups of the same
       \* clean-up are still handed over by the parser goroutine while Read (which has the error) returns and its
       \* deferred Close() flushes the rest from another goroutine: their relative order is open, their presence not
       \cup (IF r.fault.kind = "writefail" /\ exp.ret = "write"
             THEN LET all == Evs(exp.delivered)
                      k == r.fault.at
                  IN IF /\ Len(got) >= k - 1
                        /\ [i \in 1..(k - 1) |-> got[i].ev] = SubSeq(all, 1, k - 1)
                        /\ \A j \in (k + 1)..Len(all) : \E i \in 1..Len(got) : got[i].ev = all[j]
                     THEN {} ELSE {"Delivered"}
             ELSE IF pre = want THEN {} ELSE {"Delivered"})
       \* whole groups: process arguments present exactly when the event has an EXECVE record, and they are its own
       \cup (IF \A i \in 1..Len(got) : (\E j \in 1..Len(exp.delivered) : exp.delivered[j].ev = got[i].ev) => got[i].args = HasE(r.shapes[got[i].ev]) /\ got[i].argok THEN {} ELSE {"Grouping"})
       \* after a failure the parser may still take lines that were queued and Read's deferred Close() flushes
       \* what the reassembler holds: events of the scenario, nothing twice, nothing foreign
       \cup (IF (\A i \in 1..Len(rest) : rest[i] \in DOMAIN r.shapes)
                /\ (\A i, j \in 1..Len(got) : i # j => got[i].ev # got[j].ev)
                /\ (exp.ret = "none" => rest = <<>>)
             THEN {} ELSE {"Extra"})
       \cup (IF exp.ret = "parse" /\ ~r.obs.msgline THEN {"ErrorDoesNotNameLine"} ELSE {})
       \cup (IF exp.ret = "write" /\ ~r.obs.wraps THEN {"ErrorIdentity"} ELSE {})
       \* with a broken output nothing can appear after the failing write
       \cup (IF r.fault.kind = "writefailp" /\ Len(got) > Len(want) THEN {"WrittenAfterBrokenOutput"} ELSE {})

TInit == l = 1 /\ nbad = 0
Step ==
    /\ l <= Len(Trace)
    /\ LET r == Trace[l]
           bad == Checks(r)
       IN /\ \A b \in bad : PrintT(<<"BAD", ToJson([rec |-> r.id, line |-> l, what |-> b])>>)
          /\ nbad' = nbad + Cardinality(bad)
    /\ l' = l + 1
    /\ (l' = Len(Trace) + 1) => PrintT(<<"DONE", ToJson([lines |-> Len(Trace), bad |-> nbad'])>>)
TSpec == TInit /\ [][Step]_tvars
=============================================================================
