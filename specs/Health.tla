-------------------------------- MODULE Health --------------------------------
(***************************************************************************)
(* internal/health: the readiness map (a GenericSyncMap[string]bool),      *)
(* AddReadiness / OnReady (one Store each), the /readyz request at lock    *)
(* granularity (Len, then ONE locked Iterate that builds the body and the  *)
(* overall status; the HTTP code is derived from that same body), and the  *)
(* WaitForReady poller (C18).                                              *)
(*                                                                         *)
(* Threads run programs over the operations                                *)
(*    [op |-> "add", c], [op |-> "ready", c], [op |-> "status"]            *)
(* TLC explores every interleaving; the harness replays the sequential     *)
(* histories (HealthTrace) and explores the schedules of the concurrent    *)
(* programs on the real code (HealthLin).                                  *)
(***************************************************************************)
EXTENDS HealthCore

CONSTANTS Pre,       \* operations performed before the threads start
          Prog       \* sequence of threads, each a sequence of operations

VARIABLES m,        \* the map: Comps -> {"absent", "no", "yes"}
          pc, idx,  \* per thread
          snap,     \* per thread: the body being built by a status request
          resps,    \* responses delivered so far: <<thread, index, code, body>>
          everReady \* history: the map was all-ready at some point

hvars == <<m, pc, idx, snap, resps, everReady>>

Threads == 1..Len(Prog)
Op(t) == Prog[t][idx[t]]


HInit ==
    /\ m = M0(Pre)
    /\ pc = [t \in Threads |-> "idle"] /\ idx = [t \in Threads |-> 1]
    /\ snap = [t \in Threads |-> <<>>] /\ resps = {} /\ everReady = TRUE

Advance(t) == idx' = [idx EXCEPT ![t] = @ + 1]

\* readyMap.Store(component, false | true)
Store(t) ==
    /\ pc[t] = "idle" /\ idx[t] <= Len(Prog[t]) /\ Op(t).op \in {"add", "ready"}
    /\ m' = [m EXCEPT ![Op(t).c] = IF Op(t).op = "add" THEN "no" ELSE "yes"]
    /\ everReady' = (everReady \/ AllReady(m'))
    /\ Advance(t)
    /\ UNCHANGED <<pc, snap, resps>>

\* GetReadyzStatusMap: readyMap.Len() (capacity hint only)
StatusLen(t) ==
    /\ pc[t] = "idle" /\ idx[t] <= Len(Prog[t]) /\ Op(t).op = "status"
    /\ pc' = [pc EXCEPT ![t] = "iter"]
    /\ UNCHANGED <<m, idx, snap, resps, everReady>>

\* readyMap.Iterate: the linearization point of the request
StatusIter(t) ==
    /\ pc[t] = "iter"
    /\ snap' = [snap EXCEPT ![t] = BodyOf(m)]
    /\ pc' = [pc EXCEPT ![t] = "write"]
    /\ UNCHANGED <<m, idx, resps, everReady>>

\* readyzHandler: WriteHeader from the body just built, then encode it
StatusWrite(t) ==
    /\ pc[t] = "write"
    /\ resps' = resps \cup {<<t, idx[t], CodeOf(snap[t]), snap[t]>>}
    /\ pc' = [pc EXCEPT ![t] = "idle"]
    /\ Advance(t)
    /\ UNCHANGED <<m, snap, everReady>>

Quiescent == \A t \in Threads : pc[t] = "idle" /\ idx[t] > Len(Prog[t])

HNext == (\E t \in Threads : Store(t) \/ StatusLen(t) \/ StatusIter(t) \/ StatusWrite(t))
         \/ (Quiescent /\ UNCHANGED hvars)

HSpec == HInit /\ [][HNext]_hvars

AllConsistent == \A r \in resps : Consistent(r[3], r[4])

Linearizable == Quiescent => resps \in SeqRespsOf(Pre, Prog)
=============================================================================
