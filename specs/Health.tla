-------------------------------- MODULE Health --------------------------------
(***************************************************************************)
(* internal/health: the readiness map (a GenericSyncMap[string]bool),      *)
(* AddReadiness / OnReady (one Store each), the /readyz request at lock    *)
(* granularity (Len, then ONE locked Iterate that builds the body and the  *)
(* overall status; the HTTP code is derived from that same body), and the  *)
(* WaitForReady poller (C18).                                              *)
(*                                                                         *)
(* Threads run programs over the operations                                *)
(*    [op |-> "add", c], [op |-> "ready", c], [op |-> "status"]            *)
(* TLC explores every interleaving; the harness replays the sequential     *)
(* histories (HealthTrace) and explores the schedules of the concurrent    *)
(* programs on the real code (HealthLin).                                  *)
(***************************************************************************)
EXTENDS HealthCore

CONSTANTS Pre,       \* operations performed before the threads start
          Prog       \* sequence of threads, each a sequence of operations

VARIABLES m,        \* the map: Comps -> {"absent", "no", "yes"}
          pc, idx,  \* per thread
          snap,     \* per thread: the body being built by a status request
          resps,    \* responses delivered so far: <<thread, index, code, body>>
          everReady, \* history: the map was all-ready at some point
          probed    \* the probe request (thread 0, after every thread has finished) has been answered

hvars == <<m, pc, idx, snap, resps, everReady, probed>>

Threads == 1..Len(Prog)
Op(t) == Prog[t][idx[t]]


HInit ==
    /\ m = M0(Pre)
    /\ pc = [t \in Threads |-> "idle"] /\ idx = [t \in Threads |-> 1]
    /\ snap = [t \in Threads |-> <<>>] /\ resps = {} /\ everReady = TRUE /\ probed = FALSE

Advance(t) == idx' = [idx EXCEPT ![t] = @ + 1]

\* readyMap.Store(component, false | true)
Store(t) ==
    /\ pc[t] = "idle" /\ idx[t] <= Len(Prog[t]) /\ Op(t).op \in {"add", "ready"}
    /\ m' = [m EXCEPT ![Op(t).c] = IF Op(t).op = "add" THEN "no" ELSE "yes"]
    /\ everReady' = (everReady \/ AllReady(m'))
    /\ Advance(t)
    /\ UNCHANGED <<pc, snap, resps, probed>>

\* GetReadyzStatusMap: readyMap.Len() (capacity hint only)
StatusLen(t) ==
    /\ pc[t] = "idle" /\ idx[t] <= Len(Prog[t]) /\ Op(t).op = "status"
    /\ pc' = [pc EXCEPT ![t] = "iter"]
    /\ UNCHANGED <<m, idx, snap, resps, everReady, probed>>

\* readyMap.Iterate: the linearization point of the request
StatusIter(t) ==
    /\ pc[t] = "iter"
    /\ snap' = [snap EXCEPT ![t] = BodyOf(m)]
    /\ pc' = [pc EXCEPT ![t] = "write"]
    /\ UNCHANGED <<m, idx, resps, everReady, probed>>

\* readyzHandler: WriteHeader from the body just built, then encode it
StatusWrite(t) ==
    /\ pc[t] = "write"
    /\ resps' = resps \cup {<<t, idx[t], CodeOf(snap[t]), snap[t]>>}
    /\ pc' = [pc EXCEPT ![t] = "idle"]
    /\ Advance(t)
    /\ UNCHANGED <<m, snap, everReady, probed>>

Quiescent == \A t \in Threads : pc[t] = "idle" /\ idx[t] > Len(Prog[t])

\* the probe: one more request once every thread has finished (nothing runs beside it, so it is one step here)
Probe ==
    /\ Quiescent /\ ~probed
    /\ resps' = resps \cup {<<0, 1, CodeOf(BodyOf(m)), BodyOf(m)>>}
    /\ probed' = TRUE
    /\ UNCHANGED <<m, pc, idx, snap, everReady>>

HNext == (\E t \in Threads : Store(t) \/ StatusLen(t) \/ StatusIter(t) \/ StatusWrite(t))
         \/ Probe
         \/ (Quiescent /\ probed /\ UNCHANGED hvars)

HSpec == HInit /\ [][HNext]_hvars

AllConsistent == \A r \in resps : Consistent(r[3], r[4])

Linearizable == (Quiescent /\ probed) => resps \in SeqRespsProbedOf(Pre, Prog)
=============================================================================
