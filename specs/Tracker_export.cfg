SPECIFICATION Spec
CONSTANTS
  Pids = {1, 2}
  Sessions = {"s1", "s2"}
  BugRebind = FALSE
  BugKeepOnFlush = FALSE
  MaxEv = 4
  MaxLogins = 2
  MaxT = 1
  MaxClean = 1
  MaxRank = 1
  ResSet = {"success"}
  ArgsSet = {FALSE}
  WithBad = FALSE
  PathDepth = 2
  AuditSessions = {"s1", "s2", "unset"}
VIEW ExportView
ACTION_CONSTRAINT ExportEdge
CHECK_DEADLOCK FALSE
