INIT Init
NEXT Next
INVARIANTS EmitScenario
CHECK_DEADLOCK FALSE
