SPECIFICATION TSpec
CONSTANTS
  BoundMs = 2000
  DaemonBoundMs = 5000
CHECK_DEADLOCK FALSE
