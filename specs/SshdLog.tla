------------------------------- MODULE SshdLog -------------------------------
(***************************************************************************)
(* The OpenSSH server messages audito-maldito recognises, as printf-shaped *)
(* render functions over FIELD CLASSES, and the contract of the sshd       *)
(* processor: for (form, fields) the UserLogin event it must emit, the     *)
(* login it must forward to the correlator and the counter it must bump    *)
(* (C05 C06 C07 C11 C17 C19).                                              *)
(*                                                                         *)
(* Field values are class TOKENS ("<acct.plain>", "<addr.v6zone>", ...).   *)
(* The same token occurs in the rendered line and in the expectation; the  *)
(* harness substitutes every token by a seeded random value of its class   *)
(* in both, so the expectation is known by construction and no regular     *)
(* expression is re-implemented anywhere.                                  *)
(*                                                                         *)
(* There are no dynamics: TLC enumerates Vectors (every initial state is   *)
(* one vector) and prints each as JSON.                                    *)
(***************************************************************************)
EXTENDS Integers, Sequences, FiniteSets, TLC, Json

CONSTANTS Families,   \* which vector families to enumerate
          Full        \* TRUE: full products; FALSE: axis groups around a baseline

VARIABLE v

(***************************************************************************)
(* Field classes.                                                          *)
(***************************************************************************)
Accts   == {"<acct.plain>", "<acct.special>", "<acct.unicode>", "<acct.digits>", "<acct.caps>", "<acct.keyword>"}
Addrs   == {"<addr.v4>", "<addr.v6>", "<addr.v6zone>"}
Hosts   == Addrs \cup {"<host.name>"}
Ports   == {"0", "22", "65535", "<port.rand>"}
KeyTypes == {"RSA", "DSA", "ECDSA", "ED25519", "ECDSA-SK", "ED25519-SK", "XMSS"}
Fps     == {<<"SHA256", "<fp.b64>">>, <<"MD5", "<fp.md5>">>, <<"SHA512", "<fp.b64long>">>}
HashOf(f) == f[1]
SumOf(f)  == f[2]
FpStr(f)  == f[1] \o ":" \o f[2]
KeyIds  == {"<kid.plain>", "<kid.email>", "<kid.spaces>", "<kid.parens>", "<kid.serialword>", "<kid.phrase>"}
Serials == {"0", "18446744073709551615", "<ser.rand>"}
Paths   == {"<path.plain>", "<path.spaces>", "<path.odd>"}   \* odd: not canonical (//, /./, /../, trailing /, relative)
Dns     == {"<dns.plain>", "<dns.odd>"}
Reasons == {"<reason.plain>", "<reason.colon>", "<reason.long>"}

\* Hostile client-chosen names (C17): sshd prints them verbatim (%.100s).
Hostile == {"<evil.space>", "<evil.fromport>", "<evil.fromportssh>", "<evil.words>", "<evil.long>",
            "<evil.trailfrom>", "<evil.quote>", "<evil.preauth>", "<evil.dict>", "<evil.form>", "<evil.empty>",
            "<evil.other>",
            "<evil.escape>"}   \* backslash sequences as sshd's own escaping prints them (\\012, \\n, \\303\\251, a lone backslash)    \* phrases of sshd messages the daemon does NOT handle ("Disconnected from ...", pam lines)

Kid0 == "<kid.email>"   Pa0 == "<path.plain>"   D0 == "<dns.plain>"
A0 == "<acct.plain>"   K0 == "ED25519"   F0 == <<"SHA256", "<fp.b64>">>
H0 == "<addr.v4>"      P0 == "<port.rand>"

(***************************************************************************)
(* Expected events (the JSON shape of auditevent.AuditEvent, minus         *)
(* loggedAt / auditId / target which the harness checks on its own).       *)
(***************************************************************************)
Ev(outcome, subjects, source) ==
    [type |-> "UserLogin", outcome |-> outcome, component |-> "sshd",
     subjects |-> subjects, source |-> source]

Subj(acct, uid) == [loggedAs |-> acct, userID |-> uid, pid |-> "<PID>"]
SrcPort(a, p)   == [type |-> "IP", value |-> a, extra |-> [port |-> p]]
SrcDns(a, d)    == [type |-> "IP", value |-> a, extra |-> [dns |-> d]]
Src(a)          == [type |-> "IP", value |-> a]

NoLogin == [fwd |-> FALSE]
Fwd(cred) == [fwd |-> TRUE, cred |-> cred]
Ctr(m, o) == [method |-> m, outcome |-> o]

Vec(form, line, ev, login, ctr) ==
    [form |-> form, line |-> line, event |-> ev, login |-> login, counter |-> ctr, emits |-> TRUE,
     fam |-> "grammar", pidtok |-> "<pid.pos>"]

(***************************************************************************)
(* The forms.                                                              *)
(***************************************************************************)
\* auth.c: "%s %s%s%s for %s%.100s from %.200s port %d ssh2%s%s"
AccKey(a, h, p, k, f) ==
    Vec("accepted-publickey",
        "Accepted publickey for " \o a \o " from " \o h \o " port " \o p \o " ssh2: " \o k \o " " \o FpStr(f),
        Ev("succeeded", Subj(a, "unknown"), SrcPort(h, p)) @@
          [data |-> [Alg |-> k \o " " \o HashOf(f), SSHKeySum |-> SumOf(f)]],
        Fwd("unknown"), Ctr("ssh-key", "success"))

\* format_method_key: "%s %s ID %s (serial %llu) CA %s %s"
AccCert(a, h, p, k, f, id, ser, ck, cf) ==
    Vec("accepted-certificate",
        "Accepted publickey for " \o a \o " from " \o h \o " port " \o p \o " ssh2: " \o k \o "-CERT " \o FpStr(f)
          \o " ID " \o id \o " (serial " \o ser \o ") CA " \o ck \o " " \o FpStr(cf),
        Ev("succeeded", Subj(a, id), SrcPort(h, p)) @@
          [data |-> [Alg |-> k \o "-CERT " \o HashOf(f), SSHKeySum |-> SumOf(f), Serial |-> ser,
                     CA |-> "CA " \o ck \o " " \o FpStr(cf)]],
        Fwd(id), Ctr("ssh-cert", "success"))

\* trailing method information the certificate pattern does not recognise
AccPad(a, h, p, k, f, pad) ==
    Vec("accepted-publickey-padded",
        "Accepted publickey for " \o a \o " from " \o h \o " port " \o p \o " ssh2: " \o k \o " " \o FpStr(f) \o pad,
        Ev("succeeded", Subj(a, "unknown"), SrcPort(h, p)) @@
          [data |-> [Alg |-> k \o " " \o HashOf(f), SSHKeySum |-> SumOf(f)]],
        Fwd("unknown"), Ctr("ssh-cert", "success"))

AccPw(a, h, p) ==
    Vec("accepted-password",
        "Accepted password for " \o a \o " from " \o h \o " port " \o p \o " ssh2",
        Ev("succeeded", Subj(a, "unknown"), SrcPort(h, p)), Fwd("unknown"), Ctr("password", "success"))

CertInvalid(r) ==
    Vec("certificate-invalid", "Certificate invalid: " \o r,
        Ev("failed", Subj("unknown", "unknown"), SrcPort("unknown", "unknown")) @@
          [data |-> [error |-> "certificate invalid", reason |-> r]],
        NoLogin, Ctr("ssh-cert", "failure"))

CertInvalidEmpty ==
    Vec("certificate-invalid-noreason", "Certificate invalid: ",
        Ev("failed", Subj("unknown", "unknown"), SrcPort("unknown", "unknown")) @@
          [data |-> [error |-> "certificate invalid", reason |-> "unknown reason"]],
        NoLogin, Ctr("ssh-cert", "failure"))

\* auth.c: "Invalid user %.100s from %.100s port %d"
InvalidUser(a, h, p) ==
    Vec("invalid-user", "Invalid user " \o a \o " from " \o h \o " port " \o p,
        Ev("failed", Subj(a, "unknown"), SrcPort(h, p)), NoLogin, Ctr("unknown", "failure"))

UserFrom(tag, reason, a, h) ==
    Vec(tag, "User " \o a \o " from " \o h \o " not allowed because " \o reason,
        Ev("failed", Subj(a, "unknown"), Src(h)), NoLogin, Ctr("unknown", "failure"))

UserShell(tag, tail, a, sh) ==
    Vec(tag, "User " \o a \o " not allowed because shell " \o sh \o " " \o tail,
        Ev("failed", Subj(a, "unknown"), Src("unknown")) @@ [metadata |-> [extra |-> [shell |-> sh]]],
        NoLogin, Ctr("unknown", "failure"))

RootRefused(h, p) ==
    Vec("root-login-refused", "ROOT LOGIN REFUSED FROM " \o h \o " port " \o p,
        Ev("failed", Subj("root", "unknown"), SrcPort(h, p)), NoLogin, Ctr("unknown", "failure"))

BadOwner(a, path) ==
    Vec("bad-owner-or-modes", "Authentication refused for " \o a \o ": bad owner or modes for " \o path,
        Ev("failed", Subj(a, "unknown") @@ [filePath |-> path], Src("unknown")), NoLogin, Ctr("unknown", "failure"))

NastyPtr(d, h) ==
    Vec("nasty-ptr", "Nasty PTR record \"" \o d \o "\" is set up for " \o h \o ", ignoring",
        Ev("failed", Subj("unknown", "unknown"), SrcDns(h, d)), NoLogin, Ctr("unknown", "failure"))

RevMap(d, h) ==
    Vec("reverse-mapping-failed", "reverse mapping checking getaddrinfo for " \o d \o " [" \o h \o "] failed.",
        Ev("failed", Subj("unknown", "unknown"), SrcDns(h, d)), NoLogin, Ctr("unknown", "failure"))

NoMapBack(d, h) ==
    Vec("does-not-map-back", "Address " \o h \o " maps to " \o d \o ", but this does not map back to the address.",
        Ev("failed", Subj("unknown", "unknown"), SrcDns(h, d)), NoLogin, Ctr("unknown", "failure"))

\* "maximum authentication attempts exceeded for %s%.100s from %.200s port %d ssh2"
MaxAuth(inv, a, h, p) ==
    Vec("max-auth-attempts",
        "maximum authentication attempts exceeded for " \o inv \o a \o " from " \o h \o " port " \o p \o " ssh2",
        Ev("failed", Subj(inv \o a, "unknown"), SrcPort(h, p)), NoLogin, Ctr("unknown", "failure"))

FailedPw(inv, a, h, p) ==
    Vec("failed-password",
        "Failed password for " \o inv \o a \o " from " \o h \o " port " \o p \o " ssh2",
        Ev("failed", Subj(inv \o a, "unknown"), SrcPort(h, p)), NoLogin, Ctr("unknown", "failure"))

Revoked(k, f, path) ==
    Vec("revoked-key", "Authentication key " \o k \o " " \o FpStr(f) \o " revoked by file " \o path,
        Ev("failed", Subj("unknown", "unknown") @@ [keyType |-> k, fingerprint |-> FpStr(f), filePath |-> path],
           Src("unknown")), NoLogin, Ctr("unknown", "failure"))

RevokedErr(k, f, path) ==
    Vec("revoked-key-error",
        "Error checking authentication key " \o k \o " " \o FpStr(f) \o " in revoked keys file " \o path,
        Ev("failed", Subj("unknown", "unknown") @@ [keyType |-> k, fingerprint |-> FpStr(f), filePath |-> path],
           Src("unknown")), NoLogin, Ctr("unknown", "failure"))

UserReasons ==
    { <<"user-not-in-allowusers", "not listed in AllowUsers">>,
      <<"user-in-denyusers", "listed in DenyUsers">>,
      <<"user-not-in-any-group", "not in any group">>,
      <<"user-group-in-denygroups", "a group is listed in DenyGroups">>,
      <<"user-groups-not-in-allowgroups", "none of user's groups are listed in AllowGroups">> }

(***************************************************************************)
(* Enumeration.  Full = TRUE: every product.  Full = FALSE: for each form  *)
(* the product of each axis group around a baseline.                       *)
(***************************************************************************)
PeerAxes(F(_, _, _)) ==
    IF Full THEN {F(a, h, p) : a \in Accts, h \in Addrs, p \in Ports}
    ELSE {F(a, H0, P0) : a \in Accts} \cup {F(A0, h, p) : h \in Addrs, p \in Ports}

KeyAxes == IF Full THEN KeyTypes \X Fps ELSE ({K0} \X Fps) \cup (KeyTypes \X {F0})

VAccepted ==
    LET key == IF Full
               THEN {AccKey(a, h, p, kf[1], kf[2]) : a \in Accts, h \in Addrs, p \in Ports, kf \in KeyAxes}
               ELSE {AccKey(a, H0, P0, K0, F0) : a \in Accts} \cup {AccKey(A0, h, p, K0, F0) : h \in Addrs, p \in Ports}
                    \cup {AccKey(A0, H0, P0, kf[1], kf[2]) : kf \in KeyAxes}
        cert == IF Full
                THEN {AccCert(a, h, p, kf[1], kf[2], id, s, ck, cf) :
                         a \in {A0, "<acct.special>"}, h \in {H0, "<addr.v6zone>"}, p \in {P0}, kf \in KeyAxes,
                         id \in KeyIds, s \in Serials, ck \in KeyTypes, cf \in Fps}
                ELSE {AccCert(a, H0, P0, K0, F0, "<kid.email>", "0", K0, F0) : a \in Accts}
                     \cup {AccCert(A0, h, p, K0, F0, "<kid.plain>", "<ser.rand>", K0, F0) : h \in Addrs, p \in Ports}
                     \cup {AccCert(A0, H0, P0, kf[1], kf[2], id, "<ser.rand>", "RSA", F0) : kf \in KeyAxes, id \in KeyIds}
                     \cup {AccCert(A0, H0, P0, K0, F0, id, s, ck, cf) : id \in KeyIds, s \in Serials, ck \in KeyTypes, cf \in Fps}
        pad == {AccPad(A0, h, P0, kf[1], kf[2], pd) : h \in {H0, "<addr.v6>"}, kf \in KeyAxes,
                   pd \in {" and stuff", " ", " ID only", " id x (serial 1)"}}
        pw == PeerAxes(AccPw)
    IN key \cup cert \cup pad \cup pw

\* accepted logins with PID tokens that are positive decimal numerals of unusual shape (C05): the forwarded
\* process ID is the numeral's value, the event carries the token as written
GoodPids == {"<pid.pos>", "<pid.one>", "<pid.lead0>", "<pid.max>", "<pid.oct8>"}
VAcceptedPids ==
    {[x EXCEPT !.pidtok = t] : t \in GoodPids,
       x \in {AccKey(A0, H0, P0, K0, F0), AccCert(A0, H0, P0, K0, F0, Kid0, "0", "RSA", F0),
              AccPad(A0, H0, P0, K0, F0, " and stuff"), AccPw(A0, H0, P0)}}

VFailed ==
    LET certinv == {CertInvalid(r) : r \in Reasons} \cup {CertInvalidEmpty}
        inv == PeerAxes(InvalidUser)
        ufrom == {UserFrom(t[1], t[2], a, h) : t \in UserReasons, a \in Accts, h \in Hosts}
        ushell == {UserShell("user-shell-does-not-exist", "does not exist", a, sh) : a \in Accts, sh \in Paths}
                  \cup {UserShell("user-shell-not-executable", "is not executable", a, sh) : a \in Accts, sh \in Paths}
        root == {RootRefused(h, p) : h \in Addrs, p \in Ports}
        owner == {BadOwner(a, pa) : a \in Accts, pa \in Paths}
        dns == {NastyPtr(d, h) : d \in Dns, h \in Addrs} \cup {RevMap(d, h) : d \in Dns, h \in Addrs}
               \cup {NoMapBack(d, h) : d \in Dns, h \in Addrs}
        mx == {MaxAuth(i, a, h, p) : i \in {"", "invalid user "}, a \in Accts, h \in Addrs, p \in Ports}
        fpw == {FailedPw(i, a, h, p) : i \in {"", "invalid user "}, a \in Accts, h \in Addrs, p \in Ports}
        rev == {Revoked(k, f, pa) : k \in KeyTypes, f \in Fps, pa \in Paths}
               \cup {RevokedErr(k, f, pa) : k \in KeyTypes, f \in Fps, pa \in Paths}
    IN certinv \cup inv \cup ufrom \cup ushell \cup root \cup owner \cup dns \cup mx \cup fpw \cup rev

\* C17: client-chosen names in the three forms that print them before the peer.
VHostile ==
    {InvalidUser(a, h, p) : a \in Hostile, h \in Addrs, p \in Ports}
    \cup {FailedPw("invalid user ", a, h, p) : a \in Hostile, h \in Addrs, p \in Ports}
    \cup {MaxAuth("invalid user ", a, h, p) : a \in Hostile, h \in Addrs, p \in Ports}

(***************************************************************************)
(* C11: malformed and unrecognised lines.  Mutation operators applied to   *)
(* one baseline rendering of every form, noise classes in every field      *)
(* position, and odd PID tokens.  For these the contract is the universal  *)
(* post-condition only (SshdTrace!Universal).                              *)
(***************************************************************************)
Noise   == {"<noise.nul>", "<noise.quote>", "<noise.badutf8>", "<noise.huge>", "<noise.ctrl>", "<noise.empty>"}
PidToks == {"<pid.pos>", "<pid.one>", "<pid.zero>", "<pid.neg>", "<pid.plus>", "<pid.alpha>", "<pid.huge>",
            "<pid.empty>", "<pid.hex>", "<pid.lead0>"}


Baseline ==
    {AccKey(A0, H0, P0, K0, F0), AccCert(A0, H0, P0, K0, F0, Kid0, "0", "RSA", F0),
     AccPad(A0, H0, P0, K0, F0, " and stuff"), AccPw(A0, H0, P0), CertInvalid("<reason.plain>"),
     InvalidUser(A0, H0, P0), RootRefused(H0, P0), BadOwner(A0, Pa0), NastyPtr(D0, H0), RevMap(D0, H0),
     NoMapBack(D0, H0), MaxAuth("", A0, H0, P0), MaxAuth("invalid user ", A0, H0, P0),
     FailedPw("", A0, H0, P0), FailedPw("invalid user ", A0, H0, P0), Revoked(K0, F0, Pa0),
     RevokedErr(K0, F0, Pa0),
     UserShell("user-shell-does-not-exist", "does not exist", A0, Pa0),
     UserShell("user-shell-not-executable", "is not executable", A0, Pa0)}
    \cup {UserFrom(t[1], t[2], A0, H0) : t \in UserReasons}

Spaces(l) == {i \in 1..Len(l) : SubSeq(l, i, i) = " "}
Mut(kind, base, line) ==
    [form |-> base.form, mut |-> kind, line |-> line, fam |-> "mutant", pidtok |-> "<pid.pos>", emits |-> FALSE]

Truncations(b) ==
    {Mut("truncate", b, SubSeq(b.line, 1, i - 1)) : i \in Spaces(b.line)}
    \cup {Mut("truncate-sp", b, SubSeq(b.line, 1, i)) : i \in Spaces(b.line)}
    \cup {Mut("truncate-last", b, SubSeq(b.line, 1, Len(b.line) - 1))}

KeywordChanges(b) ==
    LET l == b.line IN
    {Mut("kw-drop1", b, SubSeq(l, 2, Len(l))), Mut("kw-prefix-x", b, "x" \o l), Mut("kw-prefix-sp", b, " " \o l),
     Mut("kw-syslogtag", b, "sshd[4242]: " \o l), Mut("kw-drop2nd", b, SubSeq(l, 1, 1) \o SubSeq(l, 3, Len(l))),
     Mut("kw-dup1", b, SubSeq(l, 1, 1) \o l), Mut("kw-tab", b, "\t" \o l), Mut("kw-only", b, SubSeq(l, 1, 8))}

Duplications(b) ==
    LET l == b.line IN
    {Mut("dup-tail", b, l \o SubSeq(l, i, Len(l))) : i \in Spaces(l)}
    \* the beginning of the message repeated in front of the whole message ("Accepted publickey Accepted publickey for ...")
    \cup {Mut("dup-head", b, SubSeq(l, 1, i) \o l) : i \in Spaces(l)}
    \cup {Mut("dup-all", b, l \o " " \o l), Mut("dup-nl", b, l \o "\n" \o l), Mut("trail-sp", b, l \o " "),
          Mut("trail-preauth", b, l \o " [preauth]"), Mut("trail-nl", b, l \o "\n"),
          Mut("trail-tab", b, l \o "\t"), Mut("trail-cr", b, l \o "\r"), Mut("trail-sp2", b, l \o "  ")}

Splices(b, c) ==
    {Mut("splice", b, SubSeq(b.line, 1, i) \o SubSeq(c.line, j + 1, Len(c.line))) :
        i \in Spaces(b.line), j \in Spaces(c.line)}

\* other authentication methods in the place of "password" (sshd prints the method there; the daemon handles
\* password and publickey), also without the key part
Methods == {"publickey", "keyboard-interactive/pam", "hostbased", "none", "gssapi-with-mic", "Password", "password:"}
MethodSwaps ==
    LET acc == AccPw(A0, H0, P0)
        fl  == FailedPw("", A0, H0, P0)
        fli == FailedPw("invalid user ", A0, H0, P0)
    IN {Mut("method-swap", acc, "Accepted " \o m \o SubSeq(acc.line, 18, Len(acc.line))) : m \in Methods}
       \cup {Mut("method-swap", fl, "Failed " \o m \o SubSeq(fl.line, 16, Len(fl.line))) : m \in Methods}
       \cup {Mut("method-swap", fli, "Failed " \o m \o SubSeq(fli.line, 16, Len(fli.line))) : m \in Methods}

\* a rejected attempt printed in the shape of an accepted one ("Failed publickey for ... ssh2: RSA-CERT ... ID ... CA ...",
\* sshd logs these for rejected keys and certificates): whatever the daemon makes of it, it is not a login
FailedShapes ==
    {Mut("accepted-as-failed", b, "Failed" \o SubSeq(b.line, 9, Len(b.line))) :
        b \in {AccKey(A0, H0, P0, K0, F0), AccCert(A0, H0, P0, K0, F0, Kid0, "0", "RSA", F0),
                AccCert(A0, H0, P0, "ED25519-CERT", F0, "<kid.spaces>", "<ser.rand>", "ED25519", F0),
                AccPad(A0, H0, P0, K0, F0, " and stuff")}}

VMutants ==
    UNION {Truncations(b) \cup KeywordChanges(b) \cup Duplications(b) : b \in Baseline}
    \cup MethodSwaps \cup FailedShapes
    \cup (IF Full THEN UNION {Splices(b, c) : b \in Baseline, c \in Baseline} ELSE
           UNION {Splices(b, c) : b \in {AccPw(A0, H0, P0), InvalidUser(A0, H0, P0), RootRefused(H0, P0)},
                                 c \in Baseline})

NoiseVec(x) == [form |-> x.form, mut |-> "noise-field", line |-> x.line, fam |-> "noise",
                pidtok |-> "<pid.pos>", emits |-> FALSE]

VNoise ==
    {NoiseVec(x) : x \in
       UNION { {AccKey(n, H0, P0, K0, F0), AccKey(A0, n, P0, K0, F0), AccKey(A0, H0, n, K0, F0),
                AccKey(A0, H0, P0, n, F0), AccKey(A0, H0, P0, K0, <<n, "<fp.b64>">>),
                AccKey(A0, H0, P0, K0, <<"SHA256", n>>),
                AccCert(A0, H0, P0, K0, F0, n, "0", "RSA", F0), AccCert(A0, H0, P0, K0, F0, Kid0, n, "RSA", F0),
                AccCert(A0, H0, P0, K0, F0, Kid0, "0", n, F0), AccCert(A0, H0, P0, K0, F0, Kid0, "0", "RSA", <<"SHA256", n>>),
                AccPw(n, H0, P0), AccPw(A0, n, P0), AccPw(A0, H0, n), CertInvalid(n),
                InvalidUser(n, H0, P0), InvalidUser(A0, n, P0), InvalidUser(A0, H0, n),
                RootRefused(n, P0), RootRefused(H0, n), BadOwner(n, Pa0), BadOwner(A0, n),
                NastyPtr(n, H0), NastyPtr(D0, n), RevMap(n, H0), RevMap(D0, n), NoMapBack(n, H0), NoMapBack(D0, n),
                MaxAuth("", n, H0, P0), MaxAuth("", A0, n, P0), MaxAuth("", A0, H0, n),
                FailedPw("", n, H0, P0), FailedPw("", A0, n, P0), FailedPw("", A0, H0, n),
                Revoked(n, F0, Pa0), Revoked(K0, <<"SHA256", n>>, Pa0), Revoked(K0, F0, n),
                RevokedErr(n, F0, Pa0), RevokedErr(K0, F0, n),
                UserShell("user-shell-does-not-exist", "does not exist", n, Pa0),
                UserShell("user-shell-does-not-exist", "does not exist", A0, n),
                UserFrom("user-in-denyusers", "listed in DenyUsers", n, H0),
                UserFrom("user-in-denyusers", "listed in DenyUsers", A0, n)} : n \in Noise }}
    \cup {[form |-> "raw", mut |-> "raw-noise", line |-> n, fam |-> "noise", pidtok |-> "<pid.pos>", emits |-> FALSE]
             : n \in Noise}
    \cup {[form |-> "raw", mut |-> "raw-kw-noise", line |-> k \o n, fam |-> "noise", pidtok |-> "<pid.pos>", emits |-> FALSE]
             : n \in Noise, k \in {"Accepted publickey", "Accepted password", "Certificate invalid", "Invalid user",
                                   "User ", "Accepted publickey for ", "Certificate invalid: "}}

\* odd PID tokens on every baseline form (grammar expectation dropped: only the universal contract applies)
VPids ==
    {[form |-> b.form, mut |-> "pid", line |-> b.line, fam |-> "pid", pidtok |-> t, emits |-> FALSE]
        : b \in Baseline, t \in PidToks}

Vectors ==
    (IF "accepted" \in Families THEN VAccepted \cup VAcceptedPids ELSE {})
    \cup (IF "failed" \in Families THEN VFailed ELSE {})
    \cup (IF "hostile" \in Families THEN {[x EXCEPT !.fam = "hostile"] : x \in VHostile} ELSE {})
    \cup (IF "mutants" \in Families THEN VMutants ELSE {})
    \cup (IF "noise" \in Families THEN VNoise ELSE {})
    \cup (IF "pids" \in Families THEN VPids ELSE {})

Init == v \in Vectors
Next == UNCHANGED v
Spec == Init /\ [][Next]_v

\* "Invariant" used to print every vector exactly once (every state is initial).
Emit == PrintT(<<"VEC", ToJson(v)>>)

\* Sanity of the grammar itself, checked by TLC on every vector:
\* the login is forwarded only for succeeded events, and the counter outcome
\* matches the event outcome.
Consistent ==
    v.emits =>
      /\ v.login.fwd <=> v.event.outcome = "succeeded"
      /\ (v.event.outcome = "succeeded") <=> (v.counter.outcome = "success")
      /\ v.counter.method = "password" <=> v.form = "accepted-password"
=============================================================================
