--------------------------- MODULE SshdProcTrace ---------------------------
(***************************************************************************)
(* Validation of what the real sshd processor did in every scenario of     *)
(* SshdProc (harness/cmd/sshdproc): the recorded events                    *)
(*    reset(sc) start write(ok) ready cancel recv(...) return(err) blocked *)
(* must be a behaviour of SshdProc!Next for that script, with the logged   *)
(* fields agreeing with the specification's variables.  An event that is   *)
(* not explained prints a BAD line and the rest of that scenario is        *)
(* skipped.                                                                *)
(***************************************************************************)
EXTENDS SshdProc, SequencesExt

Trace == ndJsonDeserialize("trace.ndjson")

VARIABLES l, dead, idx, nbad
tvars == <<vars, l, dead, idx, nbad>>

TInit ==
    /\ l = 1 /\ dead = TRUE /\ idx = -1 /\ nbad = 0
    /\ sc = [kind |-> "unrecognised", wok |-> TRUE, rcvWhen |-> "never", cancelWhen |-> "never"]
    /\ pc = "idle" /\ written = FALSE /\ nwrites = 0 /\ sent = 0 /\ ret = "none"
    /\ cancelled = FALSE /\ rcv = "absent" /\ counted = 0

Bad(what) ==
    /\ PrintT(<<"BAD", ToJson([scen |-> idx, line |-> l, what |-> what])>>)
    /\ dead' = TRUE /\ nbad' = nbad + 1
    /\ UNCHANGED vars

Ok == dead' = dead /\ nbad' = nbad

RetOf(r) == IF r.err THEN "err" ELSE "nil"

\* the properties of SshdProc, evaluated on the state reached by the real code
StateOK ==
    /\ AtMostOnce /\ SentAfterWritten /\ OnlyAccepted /\ WriteFailure /\ ErrOnlyOnFailure
    /\ ForwardedUnlessCancelled

Event(r) ==
    CASE r.k = "start"  -> IF ENABLED Start THEN Start /\ Ok ELSE Bad("start")
      [] r.k = "write"  -> IF ENABLED Write /\ sc.wok = r.ok THEN Write /\ Ok ELSE Bad("write")
      [] r.k = "ready"  -> IF ENABLED EnvReady THEN EnvReady /\ Ok ELSE Bad("ready")
      [] r.k = "cancel" -> IF ENABLED EnvCancel THEN EnvCancel /\ Ok ELSE Bad("cancel")
      [] r.k = "recv"   -> IF ENABLED Send /\ r.same /\ r.pidok /\ r.credok /\ r.afterwrite
                           THEN Send /\ Ok ELSE Bad("recv")
      [] r.k = "return" ->
            \* C19 on the returned worker: an emitted event was counted exactly once, under a label with its outcome
            IF written /\ "ctr" \in DOMAIN r /\ ~(r.ctr = 1 /\ r.ctrlabel = (IF sc.kind = "accepted" THEN "success" ELSE "failure"))
            THEN Bad("counter")
            ELSE IF "ctr" \in DOMAIN r /\ r.ctr > 1 THEN Bad("counter")
            ELSE IF pc = "returned" /\ ret = RetOf(r) /\ (r.err => r.wraps)
            THEN UNCHANGED vars /\ Ok
            ELSE IF pc = "sending" /\ ENABLED Abort /\ ~r.err
            THEN Abort /\ Ok
            ELSE Bad("return")
      [] r.k = "blocked" ->
            IF pc = "sending" /\ ~ENABLED Send /\ ~ENABLED Abort THEN UNCHANGED vars /\ Ok ELSE Bad("blocked")
      [] r.k = "panic"  -> Bad("panic")
      [] OTHER          -> Bad("unknown-event")

Step ==
    /\ l <= Len(Trace)
    /\ l' = l + 1
    /\ LET r == Trace[l] IN
       IF r.k = "reset"
       THEN /\ sc' = r.sc /\ idx' = r.idx /\ dead' = FALSE /\ nbad' = nbad
            /\ pc' = "idle" /\ written' = FALSE /\ nwrites' = 0 /\ sent' = 0 /\ ret' = "none"
            /\ cancelled' = (r.sc.cancelWhen = "before")
            /\ rcv' = IF r.sc.rcvWhen = "start" THEN "ready" ELSE "absent"
            /\ counted' = 0
       ELSE IF dead THEN UNCHANGED <<vars, dead, idx, nbad>>
       ELSE /\ idx' = idx
            /\ IF r.k = "end"
               THEN IF pc \in {"returned", "sending"} /\ StateOK THEN UNCHANGED vars /\ Ok ELSE Bad("end-state")
               ELSE Event(r)
    /\ (l' = Len(Trace) + 1) => PrintT(<<"DONE", ToJson([lines |-> Len(Trace), bad |-> nbad'])>>)

TSpec == TInit /\ [][Step]_tvars
=============================================================================
