------------------------------ MODULE Staleness ------------------------------
(***************************************************************************)
(* The one-minute ticker of Auditd.Read over a discretised clock (C16,     *)
(* timing half): every P time units after the processor started it calls  *)
(* both cleanups with the cut-off  now - P.  The first half of a pair      *)
(* (a LOGIN record or a login) arrives at some time, the second half       *)
(* later.  Whatever the phase of the ticker relative to the arrivals:      *)
(*   - halves at most P apart are always correlated,                       *)
(*   - halves more than 2P apart never are (the held half was discarded,   *)
(*     its events are dropped, not emitted late),                          *)
(*   - in between either may happen.                                       *)
(***************************************************************************)
EXTENDS Integers, TLC

CONSTANTS P,        \* ticker period = staleness window
          MaxT      \* horizon

VARIABLES t,        \* clock
          start,    \* when the processor (and its ticker) started: fires at start + k*P
          first,    \* "none" | "waiting" | "discarded" | "bound"
          at1, at2  \* arrival times (-1: not yet)

svars == <<t, start, first, at1, at2>>

SInit == t = 0 /\ start \in 0..(P - 1) /\ first = "none" /\ at1 = -1 /\ at2 = -1

Fires == t > start /\ (t - start) % P = 0

\* the clock advances; when the ticker fires, cleanup discards a waiting half older than the cut-off
Tick ==
    /\ t < MaxT
    /\ t' = t + 1
    /\ first' = IF first = "waiting" /\ (t + 1 > start) /\ ((t + 1 - start) % P = 0) /\ at1 < (t + 1) - P
                THEN "discarded" ELSE first
    /\ UNCHANGED <<start, at1, at2>>

Arrive1 == first = "none" /\ t >= start /\ first' = "waiting" /\ at1' = t /\ UNCHANGED <<t, start, at2>>

\* the second half: correlates iff the first is still waiting
Arrive2 ==
    /\ first \in {"waiting", "discarded"} /\ at2 = -1
    /\ at2' = t
    /\ first' = IF first = "waiting" THEN "bound" ELSE first
    /\ UNCHANGED <<t, start, at1>>

SNext == Tick \/ Arrive1 \/ Arrive2
SSpec == SInit /\ [][SNext]_svars

WithinWindowCorrelates == (at2 # -1 /\ at2 - at1 <= P) => first = "bound"
BeyondTwoWindowsNever  == (at2 # -1 /\ at2 - at1 > 2 * P) => first = "discarded"
NeverBothWays == first = "bound" => at2 # -1
=============================================================================
