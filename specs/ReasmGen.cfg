SPECIFICATION GSpec
CONSTANTS
  MinEvents = 1
  MaxEvents = 2
  Rich = "plain"
  FaultKinds = {"none", "malformed", "writefail", "writefailp", "badlogin", "badpid"}
INVARIANTS ModelOK Emit
CHECK_DEADLOCK FALSE
