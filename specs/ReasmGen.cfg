SPECIFICATION GSpec
CONSTANTS
  MaxEvents = 2
  Rich = FALSE
INVARIANTS ModelOK Emit
CHECK_DEADLOCK FALSE
