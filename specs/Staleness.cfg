SPECIFICATION SSpec
CONSTANTS
  P = 6
  MaxT = 30
INVARIANTS WithinWindowCorrelates BeyondTwoWindowsNever NeverBothWays
CHECK_DEADLOCK FALSE
