------------------------------- MODULE Framing -------------------------------
(***************************************************************************)
(* ingesters/namedpipe: a byte stream written to a FIFO in arbitrary       *)
(* chunks, read through a buffered reader (bufio.ReadString(delim)), one   *)
(* call-back per delimiter-terminated record (C12).                        *)
(*                                                                         *)
(* Bytes are abstracted to symbols: "x" ordinary bytes, "b" arbitrary      *)
(* binary bytes (NUL, 0xFF - anything but the delimiter), "l" a run longer *)
(* than any internal buffer, "d" the delimiter.  A scenario fixes the      *)
(* stream, where the writer cuts it into write calls and at which record   *)
(* (if any) the call-back fails.  The reader may obtain ANY non-empty      *)
(* prefix of what is in the pipe with each read.                           *)
(***************************************************************************)
EXTENDS Integers, Sequences, FiniteSets, TLC, Json

CONSTANTS MaxLen,     \* longest stream
          Syms        \* subset of {"x", "b", "l", "d"}

VARIABLES sc,        \* [stream, cuts, errAt]
          written,   \* how many symbols the writer has written
          pipe,      \* positions sitting in the kernel pipe
          buf,       \* positions read but not yet handed over
          calls,     \* records handed to the call-back (sequences of positions)
          ret,       \* "none" | "eof" | "cb"
          closed

fvars == <<sc, written, pipe, buf, calls, ret, closed>>

Streams == UNION {[1..n -> Syms] : n \in 0..MaxLen}

IsDelim(s, i) == s[i] = "d"

\* the delimiter-terminated records of a stream, as sequences of positions
RECURSIVE RecsFrom(_, _, _)
RecsFrom(s, i, cur) ==
    IF i > Len(s) THEN <<>>
    ELSE IF IsDelim(s, i) THEN <<Append(cur, i)>> \o RecsFrom(s, i + 1, <<>>)
    ELSE RecsFrom(s, i + 1, Append(cur, i))
Records(s) == RecsFrom(s, 1, <<>>)

Scenarios ==
    UNION { { [stream |-> s, cuts |-> c, errAt |-> e] :
                c \in SUBSET (1..(Len(s) - 1)), e \in 0..Len(Records(s)) } : s \in Streams }

FInit ==
    /\ sc \in Scenarios
    /\ written = 0 /\ pipe = <<>> /\ buf = <<>> /\ calls = <<>> /\ ret = "none" /\ closed = FALSE

\* the writer: one write(2) per chunk
NextCut == IF \E c \in sc.cuts : c > written
           THEN CHOOSE c \in sc.cuts : c > written /\ \A d \in sc.cuts : d > written => c <= d
           ELSE Len(sc.stream)
WriteChunk ==
    /\ written < Len(sc.stream) /\ ret = "none"
    /\ pipe' = pipe \o [i \in 1..(NextCut - written) |-> written + i]
    /\ written' = NextCut
    /\ UNCHANGED <<sc, buf, calls, ret, closed>>

Close ==
    /\ written = Len(sc.stream) /\ ~closed
    /\ closed' = TRUE
    /\ UNCHANGED <<sc, written, pipe, buf, calls, ret>>

\* the reader: read(2) returns any non-empty prefix of the pipe's content
HasDelim(q) == \E i \in 1..Len(q) : IsDelim(sc.stream, q[i])
ReadSome ==
    /\ ret = "none" /\ pipe # <<>> /\ ~HasDelim(buf)
    /\ \E k \in 1..Len(pipe) :
          /\ buf' = buf \o SubSeq(pipe, 1, k)
          /\ pipe' = SubSeq(pipe, k + 1, Len(pipe))
    /\ UNCHANGED <<sc, written, calls, ret, closed>>

\* ReadString found the delimiter: call-back with the record including it
Deliver ==
    /\ ret = "none" /\ HasDelim(buf)
    /\ LET k == CHOOSE i \in 1..Len(buf) : IsDelim(sc.stream, buf[i]) /\ \A j \in 1..(i - 1) : ~IsDelim(sc.stream, buf[j])
       IN /\ calls' = Append(calls, SubSeq(buf, 1, k))
          /\ buf' = SubSeq(buf, k + 1, Len(buf))
          /\ ret' = IF Len(calls) + 1 = sc.errAt THEN "cb" ELSE "none"
    /\ UNCHANGED <<sc, written, pipe, closed>>

\* end of stream: returned as an error, the unterminated tail is dropped
SeeEOF ==
    /\ ret = "none" /\ closed /\ pipe = <<>> /\ ~HasDelim(buf)
    /\ ret' = "eof"
    /\ UNCHANGED <<sc, written, pipe, buf, calls, closed>>

Unchanged == UNCHANGED fvars
FNext == WriteChunk \/ Close \/ ReadSome \/ Deliver \/ SeeEOF
FSpec == FInit /\ [][FNext]_fvars /\ WF_fvars(FNext)

(***************************************************************************)
(* C12                                                                     *)
(***************************************************************************)
IsPrefixOf(p, q) == Len(p) <= Len(q) /\ SubSeq(q, 1, Len(p)) = p

OnlyWholeRecordsInOrder == IsPrefixOf(calls, Records(sc.stream))
StopsAtFirstError == (sc.errAt > 0 /\ Len(calls) >= sc.errAt) => (Len(calls) = sc.errAt /\ ret = "cb")
FinalResult ==
    /\ ret = "eof" => (calls = Records(sc.stream) /\ sc.errAt = 0)
    /\ ret = "cb"  => (sc.errAt > 0 /\ calls = SubSeq(Records(sc.stream), 1, sc.errAt))
Terminates == <>(ret # "none")

\* what the real ingester must have done for a scenario (used by FramingTrace)
Expected(s) ==
    IF s.errAt = 0 THEN [calls |-> Records(s.stream), ret |-> "eof"]
    ELSE [calls |-> SubSeq(Records(s.stream), 1, s.errAt), ret |-> "cb"]

EmitScenario == PrintT(<<"SCEN", ToJson([stream |-> sc.stream, cuts |-> sc.cuts, errAt |-> sc.errAt])>>)
=============================================================================
