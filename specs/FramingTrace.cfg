SPECIFICATION TSpec
CONSTANTS
  MaxLen = 0
  Syms = {"x", "b", "l", "d"}
CHECK_DEADLOCK FALSE
