SPECIFICATION DSpec
CONSTANTS
  MaxOps = 4
  FixLastSz = TRUE
  NumericSort = TRUE
  Inits = {1, 2, 3, 4, 5, 6, 7, 8}
INVARIANTS EmitScenario
CHECK_DEADLOCK FALSE
