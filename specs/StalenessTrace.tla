--------------------------- MODULE StalenessTrace ---------------------------
(***************************************************************************)
(* Real-time runs of the audit processor (harness/cmd/auditdl2 -mode       *)
(* realtime, thorough tier of C16): the second half of a pair arrives      *)
(* `gap` seconds after the first; `want` events were held or are sent      *)
(* afterwards.  Judged with the window of Staleness.tla (P = 60 s).        *)
(***************************************************************************)
EXTENDS Integers, Sequences, FiniteSets, TLC, Json

CONSTANT P
Trace == ndJsonDeserialize("trace.ndjson")
VARIABLES l, nbad
tvars == <<l, nbad>>

Checks(r) ==
    (IF r.gap <= P /\ r.emitted # r.want THEN {"WithinWindowNotCorrelated"} ELSE {})
    \cup (IF r.gap > 2 * P /\ r.emitted # 0 THEN {"EmittedLate"} ELSE {})
    \cup (IF r.err # "" THEN {"ProcessorFailed"} ELSE {})

TInit == l = 1 /\ nbad = 0
Step ==
    /\ l <= Len(Trace)
    /\ LET r == Trace[l]
           bad == Checks(r)
       IN /\ \A b \in bad : PrintT(<<"BAD", ToJson([rec |-> r.id, line |-> l, what |-> b])>>)
          /\ nbad' = nbad + Cardinality(bad)
    /\ l' = l + 1
    /\ (l' = Len(Trace) + 1) => PrintT(<<"DONE", ToJson([lines |-> Len(Trace), bad |-> nbad'])>>)
TSpec == TInit /\ [][Step]_tvars
=============================================================================
