------------------------------ MODULE HealthSeq ------------------------------
(* Every sequence of registrations and ready-marks up to MaxLen: the         *)
(* sequential histories the harness replays with a status request after      *)
(* every operation.                                                          *)
EXTENDS Integers, Sequences, TLC, Json
CONSTANTS SComps, MaxLen
VARIABLE hist
Ops == [op : {"add", "ready"}, c : SComps]
SInit == hist = <<>>
SNext == Len(hist) < MaxLen /\ \E o \in Ops : hist' = Append(hist, o)
SSpec == SInit /\ [][SNext]_hist
EmitHist == PrintT(<<"HIST", ToJson(hist)>>)
=============================================================================
