------------------------------ MODULE PipelineMC ------------------------------
EXTENDS Pipeline, Json, FiniteSetsExt
ASSUME PrintT(<<"SCEN", ToJson(WorkerScenarios)>>)
=============================================================================
