---------------------------- MODULE TrackerTrace ----------------------------
(***************************************************************************)
(* Validation of executions recorded from the REAL sessionTracker          *)
(* (harness/cmd/trackerl1, harness/cmd/auditdl2) against the properties    *)
(* and the sequential specification of TrackerCore.                        *)
(*                                                                         *)
(* trace.ndjson: one record per call, in execution order, histories        *)
(* separated by {"k":"reset"} records.  A call record carries the abstract *)
(* call (as in Tracker!hin), the projection of the events the real code    *)
(* emitted during the call (outs), whether it returned an error (err),     *)
(* whether a login object handed to the tracker was altered (mut) and,     *)
(* when recorded, the projection of the tracker's stored state (st).       *)
(*                                                                         *)
(* Per step TLC                                                            *)
(*   - advances the history summary h from the INPUTS only,                *)
(*   - appends the OBSERVED outs to out,                                   *)
(*   - evaluates every property of TrackerCore on (h, out)  -> BAD lines,  *)
(*   - checks stepwise refinement: <<previous observed state, call,        *)
(*     observed outs/err, observed state>> is a step of the specification  *)
(*     (SeqApply)  -> DIV lines (diagnostic: the exhaustive result on      *)
(*     Tracker.tla transfers to the code only where this holds).           *)
(* The run is accepted when every line was consumed (DONE line).           *)
(***************************************************************************)
EXTENDS TrackerCore, Json, SequencesExt

CONSTANTS CheckState   \* TRUE when records carry `st`

Trace == ndJsonDeserialize("trace.ndjson")

VARIABLES l, h, out, obs, hist, flagged, nbad, ndiv, nsteps

tvars == <<l, h, out, obs, hist, flagged, nbad, ndiv, nsteps>>

NoObs == [sess |-> {}, wait |-> {}]

TInit ==
    /\ l = 1 /\ h = InitH /\ out = <<>> /\ obs = NoObs /\ hist = -1
    /\ flagged = {} /\ nbad = 0 /\ ndiv = 0 /\ nsteps = 0

ObsOf(r) == [sess |-> ToSet(r.st.sess), wait |-> ToSet(r.st.wait)]

\* Rebuild a specification state from an observed projection (held events get
\* their attributes back from the history summary).
TagsKnown(o, hh) == \A u \in o.sess : \A i \in 1..Len(u.held) : u.held[i] \in 1..Len(hh.ev)
Unproj(o, hh) ==
    [sess |-> [s \in {u.s : u \in o.sess} |->
                  LET u == CHOOSE x \in o.sess : x.s = s IN
                  [pid |-> u.pid, bound |-> u.bound, id |-> u.id, at |-> u.at,
                   held |-> [i \in 1..Len(u.held) |->
                               [tag |-> u.held[i], typ |-> hh.ev[u.held[i]].typ,
                                res |-> hh.ev[u.held[i]].res, args |-> hh.ev[u.held[i]].args]]]],
     wait |-> [p \in {u.pid : u \in o.wait} |->
                  LET u == CHOOSE x \in o.wait : x.pid = p IN [id |-> u.id, at |-> u.at]]]

WellShaped(o) ==
    /\ \A u, v \in o.sess : u.s = v.s => u = v
    /\ \A u, v \in o.wait : u.pid = v.pid => u = v

Conforms(r, o2) ==
    /\ WellShaped(obs) /\ WellShaped(o2) /\ TagsKnown(obs, h)
    /\ \E x \in SeqApply(Unproj(obs, h), r) :
          /\ x.outs = r.outs
          /\ x.err = r.err
          /\ Proj(x.st) = o2

\* Errors (C15 at the correlator API): an invalid login and a LOGIN record with an
\* unparsable pid for a never-opened session are reported; nothing else is.
\* (h is the summary BEFORE the call.)
ErrOK(r) ==
    IF r.k = "badlogin" THEN r.err
    ELSE IF r.k = "audit" /\ r.typ = "LOGIN" /\ r.pid = BadPid /\ r.sess \in Sessions
         THEN (h.opener[r.sess] = 0 => r.err)
         ELSE ~r.err

PropNames == {"Identity", "ExactlyOnce", "Silence", "StaleDropped", "Render", "NotMutated", "ErrIffBad",
              "CausalOrder", "WholeLines", "LoginLinesOnce"}

(***************************************************************************)
(* C10, on the output FILE of the built daemon (records of kind "outs"     *)
(* written by harness/cmd/l3 carry the file's line sequence and what       *)
(* strace saw): the UserLogin line of a login precedes every UserAction    *)
(* with its identity; every line is one whole JSON event written by one    *)
(* write(2); every login has exactly one UserLogin line.                   *)
(***************************************************************************)
IsOuts(r) == r.k = "outs" /\ "stream" \in DOMAIN r
CausalOrder(r) ==
    IsOuts(r) => \A i \in 1..Len(r.stream) :
        r.stream[i].kind = "action" =>
            \E j \in 1..(i - 1) : r.stream[j].kind = "login" /\ r.stream[j].id = r.stream[i].id
\* ... and what an earlier run left in the file is still there, untouched, in front of them (priorok)
WholeLines(r) == IsOuts(r) => (r.torn = 0 /\ r.badwrites = 0 /\ r.writes = r.lines
                               /\ ("priorok" \in DOMAIN r => r.priorok))
LoginLinesOnce(r, hh) ==
    IsOuts(r) =>
        LET ids == {r.stream[i].id : i \in {j \in 1..Len(r.stream) : r.stream[j].kind = "login"}}
            n == Cardinality({j \in 1..Len(r.stream) : r.stream[j].kind = "login"})
            want == UNION {{hh.lg[p][k].id : k \in 1..Len(hh.lg[p])} : p \in Pids}
        IN ids = want /\ n = Cardinality(want) /\ r.failed = r.failedwant

Holds(n, hh, oo, r) ==
    CASE n = "Identity"     -> IdentityOK(hh, oo)
      [] n = "ExactlyOnce"  -> ExactlyOnce(hh, oo)
      [] n = "Silence"      -> Silence(hh, oo)
      [] n = "StaleDropped" -> StaleDropped(hh, oo)
      [] n = "Render"       -> RenderOK(hh, oo)
      [] n = "NotMutated"   -> ~r.mut
      [] n = "ErrIffBad"    -> ErrOK(r)
      [] n = "CausalOrder"  -> CausalOrder(r)
      [] n = "WholeLines"   -> WholeLines(r)
      [] n = "LoginLinesOnce" -> LoginLinesOnce(r, hh)

Failing(hh, oo, r) == {n \in PropNames \ flagged : ~Holds(n, hh, oo, r)}

Report(kind, what) == PrintT(<<kind, ToJson([hist |-> hist, line |-> l, what |-> what])>>)

Step ==
    /\ l <= Len(Trace)
    /\ LET r == Trace[l] IN
       /\ l' = l + 1
       /\ IF r.k = "reset"
          THEN /\ h' = InitH /\ out' = <<>> /\ obs' = NoObs /\ hist' = r.h /\ flagged' = {}
               /\ UNCHANGED <<nbad, ndiv, nsteps>>
          ELSE IF r.k = "tick"
          THEN UNCHANGED <<h, out, obs, hist, flagged, nbad, ndiv, nsteps>>
          ELSE IF r.k = "panic"
          THEN /\ Report("BAD", "NoPanic")
               /\ nbad' = nbad + 1
               /\ UNCHANGED <<h, out, obs, hist, flagged, ndiv, nsteps>>
          ELSE LET h2  == HApply(h, r)
                   o2  == out \o r.outs
                   \* L3 records are not step-by-step observations: the calls only build the history, the
                   \* properties are evaluated on the final "outs" record
                   bad == IF "defer" \in DOMAIN r /\ r.defer THEN {} ELSE Failing(h2, o2, r)
                   ob2 == IF CheckState THEN ObsOf(r) ELSE NoObs
                   dv  == CheckState /\ "div" \notin flagged /\ ~Conforms(r, ob2)
               IN /\ h' = h2 /\ out' = o2 /\ obs' = ob2 /\ hist' = hist
                  /\ \A b \in bad : Report("BAD", b)
                  /\ dv => Report("DIV", "refinement")
                  /\ flagged' = flagged \cup bad \cup (IF dv THEN {"div"} ELSE {})
                  /\ nbad' = nbad + Cardinality(bad)
                  /\ ndiv' = ndiv + (IF dv THEN 1 ELSE 0)
                  /\ nsteps' = nsteps + 1
       /\ (l' = Len(Trace) + 1) =>
             PrintT(<<"DONE", ToJson([lines |-> Len(Trace), steps |-> nsteps', bad |-> nbad', div |-> ndiv'])>>)

TSpec == TInit /\ [][Step]_tvars
=============================================================================
