SPECIFICATION HSpec
CONSTANTS
  Comps = {"a", "b", "c"}
  Pre <- H3pre
  Prog <- H3threads
INVARIANTS AllConsistent Linearizable
CHECK_DEADLOCK TRUE
