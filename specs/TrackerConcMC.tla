---------------------------- MODULE TrackerConcMC ----------------------------
(***************************************************************************)
(* The concurrent programs of C03: checked by TLC on TrackerConc and       *)
(* executed, schedule by schedule, on the real tracker by                  *)
(* harness/cmd/trackerconc (which reads them from the PROGS line below, so *)
(* both sides run the same programs).                                      *)
(***************************************************************************)
EXTENDS TrackerConc

L(id, p) == [k |-> "login", id |-> id, pid |-> p, at |-> 0]
A(tag, s, typ, p) == [k |-> "audit", tag |-> tag, sess |-> s, typ |-> typ, pid |-> p,
                      res |-> "success", args |-> FALSE, at |-> 0]
KS == [k |-> "cleanS", c |-> 1]
KL == [k |-> "cleanL", c |-> 1]

\* the probe: an event of every session, a new login for every pid, an event of every session again
Probe(ps, ss) ==
    [i \in 1..Len(ss) |-> A(100 + i, ss[i], "OTHER", 0)]
    \o [i \in 1..Len(ps) |-> L(100 + i, ps[i])]
    \o [i \in 1..Len(ss) |-> A(200 + i, ss[i], "OTHER", 0)]
Probe1 == Probe(<<1>>, <<"s1", "s2">>)
Probe2 == Probe(<<1, 2>>, <<"s1", "s2">>)

\* login || LOGIN record + follow-up || event of another session
P1 == << <<L(1, 1)>>, <<A(1, "s1", "LOGIN", 1), A(2, "s1", "OTHER", 0)>>, <<A(3, "s2", "OTHER", 0)>> >>
\* parse goroutine || maintain goroutine delivering events of one session || login
P2 == << <<L(1, 1)>>, <<A(1, "s1", "LOGIN", 1)>>, <<A(2, "s1", "OTHER", 0), A(3, "s1", "CRED_DISP", 0)>> >>
\* login || records || cleanup
P3 == << <<L(1, 1)>>, <<A(1, "s1", "LOGIN", 1), A(2, "s1", "OTHER", 0)>>, <<KS, KL>> >>
\* two logins || two sessions
P4 == << <<L(1, 1), L(2, 2)>>, <<A(1, "s1", "LOGIN", 1), A(2, "s2", "LOGIN", 2)>>, <<A(3, "s1", "OTHER", 0)>> >>
\* session end racing a late login and a stray event
P5 == << <<L(1, 1)>>, <<A(1, "s1", "LOGIN", 1), A(2, "s1", "CRED_DISP", 0)>>, <<A(3, "s1", "OTHER", 0)>> >>
\* four threads
P6 == << <<L(1, 1)>>, <<A(1, "s1", "LOGIN", 1)>>, <<A(2, "s1", "OTHER", 0)>>, <<KS>> >>

\* five threads, two sessions, cleanup
P7 == << <<L(1, 1)>>, <<L(2, 2)>>, <<A(1, "s1", "LOGIN", 1), A(2, "s2", "LOGIN", 2)>>,
         <<A(3, "s1", "OTHER", 0), A(4, "s2", "CRED_DISP", 0)>>, <<KS, KL>> >>
\* PID reuse under concurrency: session 1 ends, the pid logs in again
P8 == << <<L(1, 1), L(2, 1)>>, <<A(1, "s1", "LOGIN", 1), A(2, "s1", "CRED_DISP", 0), A(3, "s2", "LOGIN", 1)>>,
         <<A(4, "s2", "OTHER", 0)>> >>

\* login || records || login-cache cleanup only (a lost LOGIN record cannot hide behind session cleanup)
P9 == << <<L(1, 1)>>, <<A(1, "s1", "LOGIN", 1), A(2, "s1", "OTHER", 0)>>, <<KL>> >>
\* login || records || session cleanup only
P10 == << <<L(1, 1)>>, <<A(1, "s1", "LOGIN", 1), A(2, "s1", "OTHER", 0)>>, <<KS>> >>

\* PROGRAM ORDER matters: a cleanup that comes after a delivery of the same goroutine (Read's loop handles a login and
\* then a cleanup tick) finds what that delivery left, whatever another goroutine is doing to another session at
\* that moment.  The probes look for the leftover: a LOGIN record for the pid / a login for the pid.
P11 == << <<L(1, 1), KL>>, <<A(1, "s2", "LOGIN", 2), A(2, "s2", "OTHER", 0)>> >>
ProbeL == <<A(100, "s1", "LOGIN", 1), A(101, "s1", "OTHER", 0)>>
P12 == << <<A(1, "s1", "LOGIN", 1), KS>>, <<L(2, 2), A(2, "s2", "LOGIN", 2)>> >>
ProbeS == <<L(100, 1), A(101, "s1", "OTHER", 0)>>

Programs == << [name |-> "P1", threads |-> P1, post |-> Probe1], [name |-> "P2", threads |-> P2, post |-> Probe1], [name |-> "P3", threads |-> P3, post |-> Probe1],
               [name |-> "P4", threads |-> P4, post |-> Probe2], [name |-> "P5", threads |-> P5, post |-> Probe1], [name |-> "P6", threads |-> P6, post |-> Probe1],
               [name |-> "P7", threads |-> P7, post |-> Probe2], [name |-> "P8", threads |-> P8, post |-> Probe1],
               [name |-> "P9", threads |-> P9, post |-> Probe1], [name |-> "P10", threads |-> P10, post |-> Probe1],
               [name |-> "P11", threads |-> P11, post |-> ProbeL], [name |-> "P12", threads |-> P12, post |-> ProbeS] >>

ASSUME PrintT(<<"PROGS", ToJson(Programs)>>)
=============================================================================
