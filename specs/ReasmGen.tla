------------------------------- MODULE ReasmGen -------------------------------
(***************************************************************************)
(* Enumerates the scenarios of ReasmCore (event shapes x interleavings of  *)
(* their records x one fault), checks C15 on the model for each of them    *)
(* and prints them for the harness (harness/cmd/reasm).                    *)
(***************************************************************************)
EXTENDS ReasmCore

CONSTANTS MinEvents, MaxEvents, Rich,
          FaultKinds   \* the fault kinds enumerated (a second, larger run looks at output failures only)

\* Rich: "rich" all shapes, "plain" without CWD/PATH, "min" single-record events and SYSCALL+EXECVE+PROCTITLE only
ShapeSet == IF Rich = "rich" THEN Shapes
            ELSE IF Rich = "plain" THEN {<<"U">>, <<"S", "P">>, <<"S", "E", "P">>}
            ELSE {<<"U">>, <<"S", "E", "P">>}

VARIABLES shapes, order, idx
gvars == <<shapes, order, idx>>

GInit ==
    /\ \E n \in MinEvents..MaxEvents : shapes \in [1..n -> ShapeSet]
    /\ order = <<>>
    /\ idx = [e \in DOMAIN shapes |-> 1]

Take(e) ==
    /\ idx[e] <= Len(shapes[e])
    /\ order' = Append(order, <<e, shapes[e][idx[e]]>>)
    /\ idx' = [idx EXCEPT ![e] = @ + 1]
    /\ UNCHANGED shapes

GNext == \E e \in DOMAIN shapes : Take(e)
GSpec == GInit /\ [][GNext]_gvars

Complete == \A e \in DOMAIN shapes : idx[e] > Len(shapes[e])

AllFaults ==
    {[kind |-> "none"]}
    \cup {[kind |-> "malformed", at |-> i] : i \in 1..(Len(order) + 1)}
    \cup {[kind |-> "writefail", at |-> n] : n \in 1..Cardinality(DOMAIN shapes)}
    \cup {[kind |-> "writefailp", at |-> n] : n \in 1..Cardinality(DOMAIN shapes)}
    \cup {[kind |-> "badlogin", at |-> i] : i \in 1..(Len(order) + 1)}
    \cup {[kind |-> "badpid", at |-> i] : i \in 1..(Len(order) + 1)}

Faults == {f \in AllFaults : f.kind \in FaultKinds}

Sc(f) == [shapes |-> shapes, order |-> order, fault |-> f]

ModelOK == Complete => \A f \in Faults : GroupingOK(Sc(f)) /\ OnceInOrder(Sc(f)) /\ NothingSilentlySkipped(Sc(f))

Emit == Complete => \A f \in Faults :
            PrintT(<<"SCEN", ToJson([shapes |-> shapes, order |-> order, fault |-> f,
                                     expect |-> [delivered |-> Delivered(Sc(f)), ret |-> Ret(Sc(f)),
                                                 written |-> Written(Sc(f))]])>>)
=============================================================================
