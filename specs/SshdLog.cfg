SPECIFICATION Spec
CONSTANTS
  Families = {"accepted", "failed", "hostile", "mutants", "noise", "pids"}
  Full = FALSE
INVARIANTS Consistent Emit
CHECK_DEADLOCK FALSE
