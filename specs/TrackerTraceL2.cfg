SPECIFICATION TSpec
CONSTANTS
  Pids = {1, 2, 3, 4, 5, 6, 7, 8}
  Sessions = {"s1", "s2", "s3", "s4", "s5", "s6", "s7", "s8"}
  BugRebind = FALSE
  BugKeepOnFlush = FALSE
  CheckState = FALSE
CHECK_DEADLOCK FALSE
