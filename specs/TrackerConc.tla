----------------------------- MODULE TrackerConc -----------------------------
(***************************************************************************)
(* The correlator at LOCK granularity: one action per critical section of  *)
(* every public method of sessionTracker (sessiontracker.go), executed by  *)
(* concurrent threads - the goroutines of Auditd.Read that deliver logins  *)
(* (select loop), audit events (parse goroutine and maintain goroutine,    *)
(* through the reassembler call-back) and cleanup (ticker).                *)
(*                                                                         *)
(*   TrackerMutex = TRUE   the tree after the C03 repair: the four public  *)
(*                         methods run under one tracker-level mutex       *)
(*   TrackerMutex = FALSE  the pinned tree: only the two GenericSyncMaps   *)
(*                         lock, every check-then-act releases in between  *)
(*                                                                         *)
(* C03: at quiescence what was emitted (per session: which events, how     *)
(* often, in what order, with whose identity) and whether a login and its  *)
(* LOGIN record are left waiting for each other equals the result of SOME  *)
(* sequential order of the same calls (TrackerCore!SeqApply) that respects *)
(* per-thread order; no deadlock.                                          *)
(***************************************************************************)
EXTENDS TrackerCore, Json

CONSTANTS Prog,          \* sequence of threads, each a sequence of call records
          Post,          \* calls made sequentially after every thread has finished (state probe)
          TrackerMutex

VARIABLES st, out, mu, wlock, pc, idx, loc

cvars == <<st, out, mu, wlock, pc, idx, loc>>

AllProg == Append(Prog, Post)      \* the probe runs as one more thread, after the others
PostT == Len(Prog) + 1
Threads == 1..Len(AllProg)
Call(t) == AllProg[t][idx[t]]
OthersDone == \A u \in Threads \ {PostT} : pc[u] = "idle" /\ idx[u] > Len(AllProg[u])
Ev(c) == [tag |-> c.tag, typ |-> c.typ, res |-> c.res, args |-> c.args]

CInit ==
    /\ st = InitSt /\ out = <<>> /\ mu = 0 /\ wlock = 0
    /\ pc = [t \in Threads |-> "idle"]
    /\ idx = [t \in Threads |-> 1]
    /\ loc = [t \in Threads |-> [has |-> FALSE]]

Goto(t, l) == pc' = [pc EXCEPT ![t] = l]
Same(v) == UNCHANGED v

\* entry of a public method: the tracker-level mutex (if the tree has one)
Begin(t) ==
    /\ pc[t] = "idle" /\ idx[t] <= Len(AllProg[t])
    /\ t = PostT => OthersDone
    /\ IF TrackerMutex THEN mu = 0 /\ mu' = t ELSE mu' = mu
    /\ Goto(t, CASE Call(t).k = "login"  -> "RL1"
                 [] Call(t).k = "audit"  -> "AE1"
                 [] Call(t).k = "cleanS" -> "CS"
                 [] Call(t).k = "cleanL" -> "CL")
    /\ UNCHANGED <<st, out, wlock, idx, loc>>

End(t) ==
    /\ pc[t] = "END"
    /\ mu' = IF mu = t THEN 0 ELSE mu
    /\ idx' = [idx EXCEPT ![t] = @ + 1]
    /\ Goto(t, "idle")
    /\ UNCHANGED <<st, out, wlock, loc>>

(* RemoteLogin *)
\* sessIDsToUsers.Iterate: bind the first unbound session opened by this pid and
\* release its hold queue (events are written inside the critical section)
RL1(t) ==
    /\ pc[t] = "RL1"
    /\ LET c == Call(t)
           cands == {s \in DOMAIN st.sess : st.sess[s].pid = c.pid /\ ~st.sess[s].bound}
       IN IF cands = {}
          THEN Goto(t, "RL2") /\ UNCHANGED <<st, out>>
          ELSE \E s \in cands :
                 LET u == st.sess[s]
                     u2 == [u EXCEPT !.bound = TRUE, !.id = c.id, !.held = <<>>]
                 IN /\ st' = [st EXCEPT !.sess = IF HasDisp(u.held) THEN Drop(@, s) ELSE Put(@, s, u2)]
                    /\ out' = out \o RenderAll(u.held, s, c.id)
                    /\ Goto(t, "END")
    /\ UNCHANGED <<mu, wlock, idx, loc>>

\* pidsToRULs.Load (only logs a warning)
RL2(t) ==
    /\ pc[t] = "RL2" /\ wlock = 0
    /\ Goto(t, "RL3")
    /\ UNCHANGED <<st, out, mu, wlock, idx, loc>>

\* pidsToRULs.Store: park the login
RL3(t) ==
    /\ pc[t] = "RL3" /\ wlock = 0
    /\ st' = [st EXCEPT !.wait = Put(@, Call(t).pid, [id |-> Call(t).id, at |-> Call(t).at])]
    /\ Goto(t, "END")
    /\ UNCHANGED <<out, mu, wlock, idx, loc>>

(* AuditdEvent *)
\* short-circuit, then sessIDsToUsers.Has
AE1(t) ==
    /\ pc[t] = "AE1"
    /\ LET c == Call(t) IN
       IF c.sess \in NullSessions THEN Goto(t, "END") /\ Same(loc)
       ELSE IF c.sess \in DOMAIN st.sess THEN Goto(t, "AE2") /\ Same(loc)
       ELSE IF c.typ # "LOGIN" \/ c.pid = BadPid THEN Goto(t, "END") /\ Same(loc)
       ELSE Goto(t, "AE3") /\ Same(loc)
    /\ UNCHANGED <<st, out, mu, wlock, idx>>

\* sessIDsToUsers.WithLockedValueDo: hold, or write (+ delete on CRED_DISP);
\* a session that vanished since Has() is silently skipped
AE2(t) ==
    /\ pc[t] = "AE2"
    /\ LET c == Call(t)  s == c.sess IN
       IF s \notin DOMAIN st.sess THEN UNCHANGED <<st, out>>
       ELSE LET u == st.sess[s] IN
            IF ~u.bound
            THEN st' = [st EXCEPT !.sess = Put(@, s, [u EXCEPT !.held = Append(@, Ev(c))])] /\ Same(out)
            ELSE /\ st' = [st EXCEPT !.sess = IF c.typ = "CRED_DISP" THEN Drop(@, s) ELSE @]
                 /\ out' = Append(out, Render(Ev(c), s, u.id))
    /\ Goto(t, "END")
    /\ UNCHANGED <<mu, wlock, idx, loc>>

\* pidsToRULs.Has
AE3(t) ==
    /\ pc[t] = "AE3" /\ wlock = 0
    /\ Goto(t, IF Call(t).pid \in DOMAIN st.wait THEN "AE4" ELSE "AE5")
    /\ UNCHANGED <<st, out, mu, wlock, idx, loc>>

\* pidsToRULs.WithLockedValueDo, first half: take the parked login and store the
\* bound session (sessIDsToUsers.Store, nested); the pidsToRULs lock stays held
AE4(t) ==
    /\ pc[t] = "AE4" /\ wlock = 0
    /\ LET c == Call(t) IN
       IF c.pid \notin DOMAIN st.wait
       THEN Goto(t, "END") /\ UNCHANGED <<st, wlock, loc>>
       ELSE /\ st' = [sess |-> Put(st.sess, c.sess, [pid |-> c.pid, bound |-> TRUE, id |-> st.wait[c.pid].id,
                                                      held |-> <<>>, at |-> c.at]),
                      wait |-> Drop(st.wait, c.pid)]
            /\ loc' = [loc EXCEPT ![t] = [has |-> TRUE, id |-> st.wait[c.pid].id]]
            /\ wlock' = t
            /\ Goto(t, "AE4w")
    /\ UNCHANGED <<out, mu, idx>>

\* second half: write the LOGIN event (outside the sessIDsToUsers lock)
AE4w(t) ==
    /\ pc[t] = "AE4w"
    /\ out' = Append(out, Render(Ev(Call(t)), Call(t).sess, loc[t].id))
    /\ wlock' = 0
    /\ Goto(t, "END")
    /\ UNCHANGED <<st, mu, idx, loc>>

\* sessIDsToUsers.Store: open the session unbound, holding its LOGIN event
AE5(t) ==
    /\ pc[t] = "AE5"
    /\ LET c == Call(t) IN
       st' = [st EXCEPT !.sess = Put(@, c.sess, [pid |-> c.pid, bound |-> FALSE, id |-> 0,
                                                 held |-> <<Ev(c)>>, at |-> c.at])]
    /\ Goto(t, "END")
    /\ UNCHANGED <<out, mu, wlock, idx, loc>>

(* cleanup *)
CS(t) ==
    /\ pc[t] = "CS"
    /\ \E r \in SeqCleanS(st, Call(t).c) : st' = r.st
    /\ Goto(t, "END")
    /\ UNCHANGED <<out, mu, wlock, idx, loc>>

CL(t) ==
    /\ pc[t] = "CL" /\ wlock = 0
    /\ \E r \in SeqCleanL(st, Call(t).c) : st' = r.st
    /\ Goto(t, "END")
    /\ UNCHANGED <<out, mu, wlock, idx, loc>>

Quiescent == \A t \in Threads : pc[t] = "idle" /\ idx[t] > Len(AllProg[t])

Step(t) == \/ Begin(t) \/ End(t) \/ RL1(t) \/ RL2(t) \/ RL3(t) \/ AE1(t) \/ AE2(t) \/ AE3(t)
           \/ AE4(t) \/ AE4w(t) \/ AE5(t) \/ CS(t) \/ CL(t)

CNext == (\E t \in Threads : Step(t)) \/ (Quiescent /\ UNCHANGED cvars)

CSpec == CInit /\ [][CNext]_cvars /\ \A t \in Threads : WF_cvars(Step(t))

(***************************************************************************)
(* Linearizability at quiescence.                                          *)
(***************************************************************************)
SeqObs == SeqObsOf(Prog, Post)

Linearizable == Quiescent => Obs(st, out) \in SeqObs
NoLostWakeup == Quiescent => ~MutualWait(st)
Terminates   == <>Quiescent

=============================================================================
