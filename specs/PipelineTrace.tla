----------------------------- MODULE PipelineTrace -----------------------------
(***************************************************************************)
(* Validation of observations of the REAL workers / the REAL daemon         *)
(* against Pipeline.tla's obligations:                                      *)
(*   worker  one record per scenario of Pipeline!WorkerScenarios: was the   *)
(*           blocking state reached, did the worker return after cancel,    *)
(*           how long it took, what it delivered after returning (C13);     *)
(*   daemon  one record per fail-stop scenario run against the built        *)
(*           binary: cause, load, exit status, time to exit (C08).          *)
(***************************************************************************)
EXTENDS Integers, Sequences, FiniteSets, TLC, Json

CONSTANTS BoundMs, DaemonBoundMs

Trace == ndJsonDeserialize("trace.ndjson")
VARIABLES l, nbad
tvars == <<l, nbad>>

WorkerChecks(r) ==
    (IF r.reached THEN {} ELSE {"StateNotReached"})
    \cup (IF r.returned /\ r.ms <= BoundMs THEN {} ELSE {"NoPromptReturn"})
    \cup (IF r.late = 0 THEN {} ELSE {"DeliveredAfterReturn"})
    \cup (IF r.returned /\ ~r.errctx THEN {"WrongError"} ELSE {})
    \* a hand-off that had to wait (the correlator busy, nobody cancelling) still delivers the login (C05)
    \cup (IF "login" \in DOMAIN r /\ r.login = "lost" THEN {"LoginDropped"} ELSE {})
    \* an event that cannot be written ends the worker with that error (C05), through the whole ingester chain
    \cup (IF "login" \in DOMAIN r /\ r.login = "werr:lost" THEN {"WriteErrorLost"} ELSE {})
    \* a consumer that was away for a while finds every line, in order: back-pressure delays, it does not drop (C15)
    \cup (IF "login" \in DOMAIN r /\ r.login = "lines:lost" THEN {"LineDroppedUnderBackPressure"} ELSE {})
    \* cancelled with a long backlog of queued lines: the worker stops taking input (a handful of lines may still go
    \* through, the parser chooses fairly between "cancelled" and "another line"), it does not work off the queue (C13)
    \cup (IF "login" \in DOMAIN r /\ r.login = "backlog:drained" THEN {"BacklogProcessedAfterCancel"} ELSE {})
    \* a session that never got its login stays silent, also while the processor shuts down (C04)
    \cup (IF "login" \in DOMAIN r /\ r.login = "leak" THEN {"UncorrelatedEmittedAtShutdown"} ELSE {})

Failures == {"sshd-eof", "audit-eof", "sshd-eof-partial", "audit-eof-partial", "audit-malformed", "audit-unknown-type",
             "output-fails", "output-breaks-inflight", "output-breaks-staggered", "sshd-not-fifo", "sshd-missing",
             "audit-not-fifo", "audit-missing", "bad-login-pid", "http-port-busy"}
Signals == {"sigterm", "sigint"}

DaemonChecks(r) ==
    (IF r.started THEN {} ELSE {"ScenarioNotEstablished"})
    \cup (IF r.exited /\ r.ms <= DaemonBoundMs THEN {} ELSE {"NoExit"})
    \cup (IF r.cause \in Failures /\ r.exited /\ r.status = 0 THEN {"ZeroStatusOnFailure"} ELSE {})

Checks(r) == IF r.k = "worker" THEN WorkerChecks(r) ELSE IF r.k = "daemon" THEN DaemonChecks(r) ELSE {"UnknownRecord"}

TInit == l = 1 /\ nbad = 0
Step ==
    /\ l <= Len(Trace)
    /\ LET r == Trace[l]
           bad == Checks(r)
       IN /\ \A b \in bad : PrintT(<<"BAD", ToJson([rec |-> r.id, line |-> l, what |-> b])>>)
          /\ nbad' = nbad + Cardinality(bad)
    /\ l' = l + 1
    /\ (l' = Len(Trace) + 1) => PrintT(<<"DONE", ToJson([lines |-> Len(Trace), bad |-> nbad'])>>)
TSpec == TInit /\ [][Step]_tvars
=============================================================================
