SPECIFICATION HSpec
CONSTANTS
  Comps = {"a", "b", "c"}
  Pre <- H2pre
  Prog <- H2threads
INVARIANTS AllConsistent Linearizable
CHECK_DEADLOCK TRUE
