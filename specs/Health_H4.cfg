SPECIFICATION HSpec
CONSTANTS
  Comps = {"a", "b", "c"}
  Pre <- H4pre
  Prog <- H4threads
INVARIANTS AllConsistent Linearizable
CHECK_DEADLOCK TRUE
