------------------------------ MODULE HealthWait ------------------------------
(* Scripts for WaitForReady: operations before the wait starts, operations    *)
(* while it polls, optional cancellation.  Enumerated by TLC, realised by the *)
(* harness; the recorded event logs are judged by HealthTrace!WaitChecks.     *)
EXTENDS Integers, Sequences, TLC, Json
VARIABLE sc
A(c) == [op |-> "add", c |-> c]
R(c) == [op |-> "ready", c |-> c]
Pres == {<<>>, <<A("a")>>, <<A("a"), R("a")>>, <<A("a"), A("b"), R("a")>>, <<A("a"), A("b"), R("b"), R("a")>>}
Mids == {<<>>, <<R("a")>>, <<R("b")>>, <<R("a"), R("b")>>, <<R("a"), A("a")>>, <<A("c")>>, <<A("c"), R("c")>>,
         <<R("a"), R("b"), A("b")>>}
Scripts == [pre : Pres, mid : Mids, cancel : {"no", "aftermid", "beforemid"}]
Init == sc \in Scripts
Next == UNCHANGED sc
Emit == PrintT(<<"SCEN", ToJson(sc)>>)
=============================================================================
