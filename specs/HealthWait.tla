------------------------------ MODULE HealthWait ------------------------------
(* Scripts for WaitForReady: operations before the wait starts, operations    *)
(* while it polls, optional cancellation.  Enumerated by TLC, realised by the *)
(* harness; the recorded event logs are judged by HealthTrace!WaitChecks.     *)
EXTENDS Integers, Sequences, TLC, Json
VARIABLE sc
A(c) == [op |-> "add", c |-> c]
R(c) == [op |-> "ready", c |-> c]
T    == [op |-> "tick", c |-> ""]      \* the script lets several polling periods pass
Pres == {<<>>, <<A("a")>>, <<A("a"), R("a")>>, <<A("a"), A("b"), R("a")>>, <<A("a"), A("b"), R("b"), R("a")>>}
Mids == {<<>>, <<R("a")>>, <<R("b")>>, <<R("a"), R("b")>>, <<R("a"), A("a")>>, <<A("c")>>, <<A("c"), R("c")>>,
         <<R("a"), R("b"), A("b")>>,
         \* registrations after the wait has started; a component seen ready that registers again
         <<A("c"), R("a")>>, <<A("c"), R("a"), R("b")>>, <<A("c"), T, R("a"), R("b")>>,
         <<R("a"), T, A("a"), R("b")>>, <<R("a"), T, A("a"), T, R("b")>>, <<R("b"), T, A("b"), R("a"), T>>}
Scripts == [pre : Pres, mid : Mids, cancel : {"no", "aftermid", "beforemid"}]
Init == sc \in Scripts
Next == UNCHANGED sc
Emit == PrintT(<<"SCEN", ToJson(sc)>>)
=============================================================================
