------------------------------ MODULE ReasmCore ------------------------------
(***************************************************************************)
(* The audit half of the daemon between the line channel and the           *)
(* correlator, as used by processors/auditd (C15):                         *)
(*                                                                         *)
(*   parseAuditLogs: auparse.ParseLogLine per line (a malformed line ends  *)
(*     the goroutine with an error that names the line), then              *)
(*   libaudit.Reassembler (go-libaudit, modelled as used): records are     *)
(*     collected per audit sequence number; an event is complete on        *)
(*     PROCTITLE / EOE or when it consists of a single-record type; after  *)
(*     every record the list is cleaned up HEAD FIRST: events are handed   *)
(*     over in sequence order, and only while the lowest one is complete;  *)
(*   reassemblerCB: coalesce -> correlator; the first error is put into a  *)
(*     one-slot channel without blocking, Read's select loop returns it.   *)
(*                                                                         *)
(* A scenario fixes the kernel events (their record shapes), an            *)
(* interleaving of their records that preserves per-event order, and at    *)
(* most one fault.  Run(sc) is what the code must have done by the time    *)
(* the last line has been processed.                                       *)
(***************************************************************************)
EXTENDS Integers, Sequences, FiniteSets, TLC, Json

\* record kinds: "U" single-record event (USER_*, LOGIN, CRED_*: complete at once),
\*               "S" SYSCALL, "E" EXECVE, "C" CWD/PATH, "P" PROCTITLE (completes the event)
Shapes == {<<"U">>, <<"S", "P">>, <<"S", "E", "P">>, <<"S", "E", "C", "P">>}

Completes(k) == k \in {"U", "P"}

\* list: function from event id (= sequence order) to the records seen so far
ListHead(l) == CHOOSE e \in DOMAIN l : \A f \in DOMAIN l : e <= f
IsComplete(recs) == recs # <<>> /\ Completes(recs[Len(recs)])

\* clean up head first: returns <<remaining list, evicted groups in order>>
RECURSIVE Evict(_, _)
Evict(l, acc) ==
    IF DOMAIN l = {} THEN <<l, acc>>
    ELSE LET e == ListHead(l) IN
         IF IsComplete(l[e]) THEN Evict([f \in DOMAIN l \ {e} |-> l[f]], Append(acc, [ev |-> e, recs |-> l[e]]))
         ELSE <<l, acc>>

Put(l, e, k) == [f \in DOMAIN l \cup {e} |-> IF f = e THEN (IF e \in DOMAIN l THEN Append(l[e], k) ELSE <<k>>) ELSE l[f]]

(***************************************************************************)
(* fault: [kind |-> "none"]                                                *)
(*        [kind |-> "malformed", at |-> i]   a malformed line BEFORE the   *)
(*                                           i-th record of the order      *)
(*        [kind |-> "writefail", at |-> n]   the n-th event write fails    *)
(*        [kind |-> "writefailp", at |-> n]  every write from the n-th on  *)
(*                                           fails (a broken output)       *)
(*        [kind |-> "badlogin",  at |-> i]   an invalid login is delivered *)
(*                                           before the i-th record        *)
(*        [kind |-> "badpid",    at |-> i]   a LOGIN record with an        *)
(*                                           unparsable pid (new session)  *)
(*                                           before the i-th record        *)
(* Run folds the order.  st = [l, delivered, nwrites, ret]                 *)
(***************************************************************************)
RECURSIVE Fold(_, _, _, _)
Fold(order, i, fault, st) ==
    IF st.ret # "none" THEN st
    ELSE IF fault.kind = "malformed" /\ fault.at = i THEN [st EXCEPT !.ret = "parse"]
    ELSE IF fault.kind = "badlogin" /\ fault.at = i THEN [st EXCEPT !.ret = "login"]
    ELSE IF fault.kind = "badpid" /\ fault.at = i THEN [st EXCEPT !.ret = "pid"]
    ELSE IF i > Len(order) THEN st
    ELSE LET r == order[i]
             ev == Evict(Put(st.l, r[1], r[2]), <<>>)
             groups == ev[2]
             \* deliveries happen one by one; the n-th write may fail: the error is remembered (first one wins),
             \* the remaining groups of this clean-up are still handed over
             nw == st.nwrites + Len(groups)
             failed == fault.kind \in {"writefail", "writefailp"} /\ st.nwrites < fault.at /\ fault.at <= nw
         IN Fold(order, i + 1, fault,
                 [l |-> ev[1], delivered |-> st.delivered \o groups, nwrites |-> nw,
                  ret |-> IF failed THEN "write" ELSE "none"])

Run(sc) == Fold(sc.order, 1, sc.fault, [l |-> <<>>, delivered |-> <<>>, nwrites |-> 0, ret |-> "none"])

\* the groups that must have reached the correlator (and, with every session correlated, the output) in order,
\* as sequences of record kinds per event; a failed write is a group that reached the correlator but not the output
Delivered(sc) == Run(sc).delivered
Ret(sc) == Run(sc).ret
\* the events that made it to the OUTPUT, in order: all delivered ones but the one whose write failed
WrittenEvs(sc) ==
    LET d == Delivered(sc)
        all == [i \in 1..Len(d) |-> d[i].ev]
    IN IF sc.fault.kind = "writefail" /\ Ret(sc) = "write"
       THEN SubSeq(all, 1, sc.fault.at - 1) \o SubSeq(all, sc.fault.at + 1, Len(all))
       ELSE IF sc.fault.kind = "writefailp" /\ Ret(sc) = "write"
       THEN SubSeq(all, 1, sc.fault.at - 1)
       ELSE all
Written(sc) == Len(WrittenEvs(sc))

(***************************************************************************)
(* C15 on the model.                                                       *)
(***************************************************************************)
\* every delivered group is the complete record sequence of ONE event
GroupingOK(sc) == \A i \in 1..Len(Delivered(sc)) :
                     LET g == Delivered(sc)[i] IN g.recs = sc.shapes[g.ev]
\* handed over at most once
OnceInOrder(sc) == \A i, j \in 1..Len(Delivered(sc)) : i < j => Delivered(sc)[i].ev # Delivered(sc)[j].ev
\* without fault every event is handed over; with a fault the processor stops with that fault's error
NothingSilentlySkipped(sc) ==
    /\ sc.fault.kind = "none" => (Ret(sc) = "none" /\ {Delivered(sc)[i].ev : i \in 1..Len(Delivered(sc))} = DOMAIN sc.shapes)
    /\ sc.fault.kind = "malformed" => Ret(sc) = "parse"
    /\ sc.fault.kind = "badlogin" => Ret(sc) = "login"
    /\ sc.fault.kind = "badpid" => Ret(sc) = "pid"
    /\ (sc.fault.kind \in {"writefail", "writefailp"} /\ sc.fault.at <= Cardinality(DOMAIN sc.shapes)) => Ret(sc) = "write"
=============================================================================
