SPECIFICATION HSpec
CONSTANTS
  Comps = {"a", "b", "c"}
  Pre <- H1pre
  Prog <- H1threads
INVARIANTS AllConsistent Linearizable
CHECK_DEADLOCK TRUE
