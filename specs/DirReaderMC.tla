------------------------------ MODULE DirReaderMC ------------------------------
EXTENDS DirReader
ASSUME PrintT(<<"INITS", ToJson(InitTable)>>)
=============================================================================
