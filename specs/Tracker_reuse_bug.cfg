SPECIFICATION Spec
CONSTANTS
  Pids = {1}
  Sessions = {"s1", "s2"}
  BugRebind = TRUE
  BugKeepOnFlush = TRUE
  MaxEv = 6
  MaxLogins = 2
  MaxT = 0
  MaxClean = 0
  MaxRank = 2
  ResSet = {"success"}
  ArgsSet = {FALSE}
  WithBad = FALSE
  PathDepth = 2
  AuditSessions = {"s1", "s2", "unset"}
VIEW View
INVARIANTS Inv_Identity Inv_ExactlyOnce Inv_Silence Inv_StaleDropped Inv_Render NoMutualWait
PROPERTIES AppendOnly IgnoredLeavesNoTrace CleanupExact
CHECK_DEADLOCK FALSE
