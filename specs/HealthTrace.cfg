SPECIFICATION TSpec
CONSTANTS
  Comps = {"a", "b", "c"}
CHECK_DEADLOCK FALSE
