----------------------------- MODULE TrackerCore -----------------------------
(***************************************************************************)
(* Pure operators describing the correlator of audito-maldito              *)
(* (processors/auditd/sessiontracker) as a sequential object, the          *)
(* input-driven history summary used to STATE the properties, and the      *)
(* properties themselves (C01 C02 C04 C09 C14 C16) as predicates over       *)
(* (history summary, emitted stream).                                      *)
(*                                                                         *)
(* Nothing here is a variable: Tracker.tla (design, explored by TLC),      *)
(* TrackerConc.tla (lock granularity) and TrackerTrace.tla (validation of  *)
(* executions recorded from the real code) all EXTEND this module, so      *)
(* there is one source of truth for "what a call does" and for "what the   *)
(* property says".                                                         *)
(***************************************************************************)
EXTENDS Integers, Sequences, FiniteSets, TLC

CONSTANTS
    Pids,            \* set of positive integers: sshd process ids
    Sessions,        \* set of strings: numeric audit session ids
    BugRebind,       \* TRUE = pinned-tree behaviour: RemoteLogin also scans
                     \*        sessions that already have a login bound
    BugKeepOnFlush   \* TRUE = pinned-tree behaviour: a late login that
                     \*        releases a hold queue containing CRED_DISP
                     \*        leaves the session in place

NullSessions == {"", "unset"}      \* events outside any audit session
BadPid       == 0                  \* an unparsable pid field in a LOGIN record
Types        == {"LOGIN", "CRED_DISP", "OTHER"}

Range(f) == {f[x] : x \in DOMAIN f}
Drop(f, x) == [y \in DOMAIN f \ {x} |-> f[y]]
Put(f, x, v) == [y \in DOMAIN f \cup {x} |-> IF y = x THEN v ELSE f[y]]
EmptyFn == [x \in {} |-> 0]

Outcome(res) == IF res = "success" THEN "succeeded" ELSE "failed"

(***************************************************************************)
(* An audit event as the correlator sees it (an aucoalesce.Event):         *)
(*   e = [tag, typ, res, args]   tag: unique number of the event           *)
(* and an emitted UserAction:                                              *)
(*   o = [sess, tag, id, oc, args, wf]                                     *)
(*   id = identity (number of the login) the event carries, oc = outcome,  *)
(*   args = carries process arguments, wf = type/component/timestamp/      *)
(*   summary fields are those of event `tag`.                              *)
(***************************************************************************)
Render(e, s, id) ==
    [sess |-> s, tag |-> e.tag, id |-> id, oc |-> Outcome(e.res),
     args |-> e.args, wf |-> TRUE]

RenderAll(q, s, id) == [i \in 1..Len(q) |-> Render(q[i], s, id)]

HasDisp(q) == \E i \in 1..Len(q) : q[i].typ = "CRED_DISP"

(***************************************************************************)
(* The correlator state:                                                   *)
(*   st.sess : open sessions,  s |-> [pid, bound, id, held, at]            *)
(*   st.wait : parked logins,  p |-> [id, at]                              *)
(* Every operator returns the SET of possible results [st, outs, err]:     *)
(* iteration order over the session map is a genuine choice.               *)
(***************************************************************************)
InitSt == [sess |-> EmptyFn, wait |-> EmptyFn]

Res(st, outs, err) == [st |-> st, outs |-> outs, err |-> err]

\* sessiontracker.RemoteLogin (valid login): bind to a session opened by this
\* pid and release its hold queue, else park the login under its pid.
SeqLogin(st, id, p, t) ==
    LET cands == {s \in DOMAIN st.sess :
                     /\ st.sess[s].pid = p
                     /\ (BugRebind \/ ~st.sess[s].bound)}
    IN IF cands # {}
       THEN { LET u  == st.sess[s]
                  u2 == [u EXCEPT !.bound = TRUE, !.id = id, !.held = <<>>]
                  gone == HasDisp(u.held) /\ ~BugKeepOnFlush
              IN Res([st EXCEPT !.sess = IF gone THEN Drop(@, s) ELSE Put(@, s, u2)],
                     RenderAll(u.held, s, id), FALSE)
              : s \in cands }
       ELSE { Res([st EXCEPT !.wait = Put(@, p, [id |-> id, at |-> t])], <<>>, FALSE) }

\* sessiontracker.RemoteLogin with a login that fails Validate().
SeqBadLogin(st) == { Res(st, <<>>, TRUE) }

\* sessiontracker.AuditdEvent
SeqAudit(st, e, s, p, t) ==
    IF s \in NullSessions THEN { Res(st, <<>>, FALSE) }
    ELSE IF s \in DOMAIN st.sess THEN
        LET u == st.sess[s] IN
        IF ~u.bound
        THEN { Res([st EXCEPT !.sess = Put(@, s, [u EXCEPT !.held = Append(@, e)])], <<>>, FALSE) }
        ELSE { Res([st EXCEPT !.sess = IF e.typ = "CRED_DISP" THEN Drop(@, s) ELSE @],
                   <<Render(e, s, u.id)>>, FALSE) }
    ELSE IF e.typ # "LOGIN" THEN { Res(st, <<>>, FALSE) }
    ELSE IF p = BadPid THEN { Res(st, <<>>, TRUE) }
    ELSE IF p \in DOMAIN st.wait
    THEN { Res([sess |-> Put(st.sess, s, [pid |-> p, bound |-> TRUE, id |-> st.wait[p].id,
                                          held |-> <<>>, at |-> t]),
                wait |-> Drop(st.wait, p)],
               <<Render(e, s, st.wait[p].id)>>, FALSE) }
    ELSE { Res([st EXCEPT !.sess = Put(@, s, [pid |-> p, bound |-> FALSE, id |-> 0,
                                              held |-> <<e>>, at |-> t])],
               <<>>, FALSE) }

\* sessiontracker.DeleteUsersWithoutLoginsBefore(cut-off c)
SeqCleanS(st, c) ==
    { Res([st EXCEPT !.sess = [s \in {x \in DOMAIN @ : @[x].bound \/ @[x].at >= c} |-> @[s]]],
          <<>>, FALSE) }

\* sessiontracker.DeleteRemoteUserLoginsBefore(cut-off c)
SeqCleanL(st, c) ==
    { Res([st EXCEPT !.wait = [p \in {x \in DOMAIN @ : @[x].at >= c} |-> @[p]]],
          <<>>, FALSE) }

\* A call record (as written in input histories and traces) applied to a state.
SeqApply(st, call) ==
    CASE call.k = "login"    -> SeqLogin(st, call.id, call.pid, call.at)
      [] call.k = "badlogin" -> SeqBadLogin(st)
      [] call.k = "audit"    -> SeqAudit(st, [tag |-> call.tag, typ |-> call.typ,
                                              res |-> call.res, args |-> call.args],
                                         call.sess, call.pid, call.at)
      [] call.k = "cleanS"   -> SeqCleanS(st, call.c)
      [] call.k = "cleanL"   -> SeqCleanL(st, call.c)
      [] OTHER               -> { Res(st, <<>>, FALSE) }

(***************************************************************************)
(* Projection of a state to plain sets of records (what the harness        *)
(* reports from VerifSnapshot).                                            *)
(***************************************************************************)
HeldTags(q) == [i \in 1..Len(q) |-> q[i].tag]

Proj(st) ==
    [sess |-> {[s |-> s, pid |-> st.sess[s].pid, bound |-> st.sess[s].bound,
                id |-> st.sess[s].id, held |-> HeldTags(st.sess[s].held),
                at |-> st.sess[s].at] : s \in DOMAIN st.sess},
     wait |-> {[pid |-> p, id |-> st.wait[p].id, at |-> st.wait[p].at] : p \in DOMAIN st.wait}]

(***************************************************************************)
(* History summary: a function of the INPUTS only (never of the            *)
(* correlator's state or output).  It records, per session, the LOGIN      *)
(* record that opened it and the events the properties require to be       *)
(* emitted; per pid, the logins in arrival order; and which halves went    *)
(* stale (a cleanup call with a later cut-off happened while the other     *)
(* half had not arrived).  The k-th session opened by a pid matches the    *)
(* k-th login of that pid (k > 1 is PID reuse, C09).                       *)
(***************************************************************************)
InitH ==
    [opener |-> [s \in Sessions |-> 0],       \* pid of the LOGIN record that opened s
     rank   |-> [s \in Sessions |-> 0],       \* s is the rank-th session opened by that pid
     openAt |-> [s \in Sessions |-> 0],
     req    |-> [s \in Sessions |-> <<>>],    \* tags from the LOGIN record up to and incl. CRED_DISP
     closed |-> [s \in Sessions |-> FALSE],   \* CRED_DISP is in req
     strays |-> [s \in Sessions |-> {}],      \* tags after CRED_DISP (left unspecified)
     staleS |-> [s \in Sessions |-> FALSE],
     lg     |-> [p \in Pids |-> <<>>],        \* logins of pid p: [id, at, stale]
     ev     |-> <<>>]                         \* ev[tag] = [sess, typ, res, args]

NumOpened(h, p) == Cardinality({s \in Sessions : h.opener[s] = p})
SessionOf(h, p, k) == {s \in Sessions : h.opener[s] = p /\ h.rank[s] = k}
HasLogin(h, s) == h.opener[s] # 0 /\ Len(h.lg[h.opener[s]]) >= h.rank[s]
MatchLogin(h, s) == h.lg[h.opener[s]][h.rank[s]]
Stale(h, s) == h.staleS[s] \/ (HasLogin(h, s) /\ MatchLogin(h, s).stale)
Correlated(h, s) == h.opener[s] # 0 /\ HasLogin(h, s) /\ ~Stale(h, s)

HAudit(h, e, s, p, t) ==
    LET h1 == [h EXCEPT !.ev = Append(@, [sess |-> s, typ |-> e.typ, res |-> e.res, args |-> e.args])]
    IN IF s \notin Sessions THEN h1
       ELSE IF h.opener[s] = 0
       THEN IF e.typ = "LOGIN" /\ p # BadPid
            THEN [h1 EXCEPT !.opener[s] = p, !.rank[s] = NumOpened(h, p) + 1,
                            !.openAt[s] = t, !.req[s] = <<e.tag>>]
            ELSE h1
       ELSE IF h.closed[s] THEN [h1 EXCEPT !.strays[s] = @ \cup {e.tag}]
       ELSE [h1 EXCEPT !.req[s] = Append(@, e.tag), !.closed[s] = (e.typ = "CRED_DISP")]

HLogin(h, id, p, t) == [h EXCEPT !.lg[p] = Append(@, [id |-> id, at |-> t, stale |-> FALSE])]

HCleanS(h, c) ==
    [h EXCEPT !.staleS = [s \in Sessions |->
        @[s] \/ (h.opener[s] # 0 /\ ~HasLogin(h, s) /\ h.openAt[s] < c)]]

HCleanL(h, c) ==
    [h EXCEPT !.lg = [p \in Pids |-> [k \in 1..Len(@[p]) |->
        IF SessionOf(h, p, k) = {} /\ @[p][k].at < c
        THEN [@[p][k] EXCEPT !.stale = TRUE] ELSE @[p][k]]]]

HApply(h, call) ==
    CASE call.k = "login"  -> HLogin(h, call.id, call.pid, call.at)
      [] call.k = "audit"  -> HAudit(h, [tag |-> call.tag, typ |-> call.typ,
                                         res |-> call.res, args |-> call.args],
                                     call.sess, call.pid, call.at)
      [] call.k = "cleanS" -> HCleanS(h, call.c)
      [] call.k = "cleanL" -> HCleanL(h, call.c)
      [] OTHER             -> h

(***************************************************************************)
(* Well-formed histories (the quantifier of C01/C02/C04/C09): each session *)
(* id is opened by one LOGIN record; a pid is used again, by a login or a  *)
(* LOGIN record, only after its previous use has ENDED (login arrived,     *)
(* CRED_DISP processed, nothing stale).                                    *)
(***************************************************************************)
UseEnded(h, p, k) ==
    /\ Len(h.lg[p]) >= k /\ ~h.lg[p][k].stale
    /\ \E s \in SessionOf(h, p, k) : h.closed[s] /\ ~h.staleS[s]

PidFreeForSession(h, p, maxRank) ==
    LET n == NumOpened(h, p) IN n < maxRank /\ (IF n = 0 THEN TRUE ELSE UseEnded(h, p, n))

\* The two pipes are independent: the sshd line of a NEW process that reuses a pid may overtake the end of the earlier
\* session on the audit pipe.  It cannot overtake the earlier process's own sshd line (same pipe), and here it does
\* not overtake the earlier session's LOGIN record either (two logins parked under one pid cannot be told apart by a
\* pid-keyed correlator; that situation is outside the property).  So: the previous use is correlated (login and
\* LOGIN record both seen, nothing stale) - ended or not.
UseCorrelated(h, p, k) ==
    /\ Len(h.lg[p]) >= k /\ ~h.lg[p][k].stale
    /\ \E s \in SessionOf(h, p, k) : ~h.staleS[s]

PidFreeForLogin(h, p, maxRank) ==
    LET m == Len(h.lg[p]) IN m < maxRank /\ (IF m = 0 THEN TRUE ELSE UseCorrelated(h, p, m))

(***************************************************************************)
(* The properties, over (h, out).                                          *)
(***************************************************************************)
EmittedTags(out, s) ==
    LET sel == SelectSeq(out, LAMBDA o : o.sess = s) IN [i \in 1..Len(sel) |-> sel[i].tag]

\* C01 / C09: an emitted event carries the identity of the login matching the
\* LOGIN record that opened its session, and of no other login.
IdentityOK(h, out) ==
    \A i \in 1..Len(out) :
        LET o == out[i] IN
        (o.sess \in Sessions /\ HasLogin(h, o.sess)) => o.id = MatchLogin(h, o.sess).id

\* C02: once both halves are there (and neither went stale) the required
\* events of the session are emitted exactly once, in order.
ExactlyOnce(h, out) ==
    \A s \in Sessions :
        Correlated(h, s) =>
            SelectSeq(EmittedTags(out, s), LAMBDA t : t \in Range(h.req[s])) = h.req[s]

\* C04: nothing is emitted outside correlated sessions, nothing before both
\* halves are known, nothing but the session's own events.
Silence(h, out) ==
    \A i \in 1..Len(out) :
        LET o == out[i] IN
        /\ o.sess \in Sessions
        /\ h.opener[o.sess] # 0
        /\ HasLogin(h, o.sess)
        /\ o.tag \in Range(h.req[o.sess]) \cup h.strays[o.sess]

\* C16 (correlator API): a half discarded by cleanup stays discarded - the
\* held events are dropped, not emitted late.
StaleDropped(h, out) ==
    \A s \in Sessions : Stale(h, s) => EmittedTags(out, s) = <<>>

\* C14: rendering.
RenderOK(h, out) ==
    \A i \in 1..Len(out) :
        LET o == out[i] IN
        /\ o.tag \in 1..Len(h.ev)
        /\ o.oc = Outcome(h.ev[o.tag].res)
        /\ o.args = h.ev[o.tag].args
        /\ o.sess = h.ev[o.tag].sess
        /\ o.wf

(***************************************************************************)
(* C03: what a concurrent execution is compared with.  The observation of  *)
(* an execution is, per session, the emitted events with their identities  *)
(* in order, and whether a login and the LOGIN record it matches are left  *)
(* waiting for each other.  SeqObsOf(prog) is the set of observations of   *)
(* all sequential orders of the calls of prog (a sequence of threads, each *)
(* a sequence of calls) that respect per-thread order.                     *)
(***************************************************************************)
PerSession(o) ==
    [s \in Sessions |-> LET sel == SelectSeq(o, LAMBDA x : x.sess = s)
                        IN [i \in 1..Len(sel) |-> <<sel[i].tag, sel[i].id>>]]

MutualWait(s0) == \E s \in DOMAIN s0.sess : ~s0.sess[s].bound /\ s0.sess[s].pid \in DOMAIN s0.wait

Obs(s0, o) == [per |-> PerSession(o), mw |-> MutualWait(s0)]

\* post: calls made one after another once every thread has finished (a probe
\* that makes the state left behind by the concurrent part observable)
RECURSIVE SeqFold(_, _, _)
SeqFold(s0, o, calls) ==
    IF calls = <<>> THEN {[obs |-> Obs(s0, o), st |-> Proj(s0)]}
    ELSE UNION { SeqFold(r.st, o \o r.outs, Tail(calls)) : r \in SeqApply(s0, Head(calls)) }

RECURSIVE SeqOutcomes(_, _, _, _, _)
SeqOutcomes(prog, post, s0, o, ix) ==
    LET ready == {t \in 1..Len(prog) : ix[t] <= Len(prog[t])} IN
    IF ready = {} THEN SeqFold(s0, o, post)
    ELSE UNION { UNION { SeqOutcomes(prog, post, r.st, o \o r.outs, [ix EXCEPT ![t] = @ + 1])
                         : r \in SeqApply(s0, prog[t][ix[t]]) } : t \in ready }

SeqResultsOf(prog, post) == SeqOutcomes(prog, post, InitSt, <<>>, [t \in 1..Len(prog) |-> 1])
SeqObsOf(prog, post) == {x.obs : x \in SeqResultsOf(prog, post)}
=============================================================================
