----------------------------- MODULE TrackerSim -----------------------------
(***************************************************************************)
(* Long random histories of Tracker!Next for `tlc -simulate`: a planning   *)
(* step draws the next call with explicit weights (TLC!RandomElement) into *)
(* the variable `pick`, an execution step performs it through the actions  *)
(* of Tracker if its guard holds.  Every behaviour projected on            *)
(* Tracker!vars is a behaviour of Tracker!Spec (with stuttering).          *)
(***************************************************************************)
EXTENDS Tracker

VARIABLE pick

None == [k |-> "none"]
Pick(seq) == seq[RandomElement(1..Len(seq))]
SetPick(S) == RandomElement(S)

SimInit == Init /\ pick = None

RealSess == AuditSessions \cap Sessions
NullSess == AuditSessions \ Sessions

PlanAudit ==
    LET s == IF NullSess # {} /\ RandomElement(1..8) = 1 THEN SetPick(NullSess) ELSE SetPick(RealSess)
        fresh == s \in Sessions /\ h.opener[s] = 0
        typ == IF fresh THEN Pick(<<"LOGIN", "LOGIN", "LOGIN", "OTHER", "CRED_DISP">>)
               ELSE Pick(<<"OTHER", "OTHER", "OTHER", "OTHER", "OTHER", "CRED_DISP", "LOGIN">>)
        p == IF typ = "LOGIN"
             THEN (IF WithBad /\ RandomElement(1..12) = 1 THEN BadPid ELSE SetPick(Pids))
             ELSE BadPid
    IN [k |-> "audit", sess |-> s, typ |-> typ, pid |-> p, res |-> SetPick(ResSet), args |-> SetPick(ArgsSet)]

Plan ==
    /\ pick = None
    /\ pick' = LET d == RandomElement(1..20) IN
               IF d <= 3 THEN [k |-> "login", pid |-> SetPick(Pids)]
               ELSE IF d = 4 THEN [k |-> "tick"]
               ELSE IF d = 5 THEN [k |-> Pick(<<"cleanS", "cleanL">>), c |-> RandomElement(0..now)]
               ELSE IF d = 6 /\ WithBad THEN [k |-> "badlogin"]
               ELSE PlanAudit
    /\ UNCHANGED vars

Try(A) == A \/ (~ENABLED A /\ UNCHANGED vars)

Exec ==
    /\ pick # None
    /\ pick' = None
    /\ CASE pick.k = "login"    -> Try(Login(pick.pid))
         [] pick.k = "tick"     -> Try(Tick)
         [] pick.k = "cleanS"   -> Try(pick.c >= 1 /\ CleanS(pick.c))
         [] pick.k = "cleanL"   -> Try(pick.c >= 1 /\ CleanL(pick.c))
         [] pick.k = "badlogin" -> Try(BadLogin)
         [] pick.k = "audit"    -> Try(Audit(pick.sess, pick.typ, pick.pid, pick.res, pick.args))

SimNext == Plan \/ Exec
SimSpec == SimInit /\ [][SimNext]_<<vars, pick>>
=============================================================================
