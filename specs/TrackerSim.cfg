SPECIFICATION SimSpec
CONSTANTS
  Pids = {1, 2, 3, 4, 5}
  Sessions = {"s1", "s2", "s3", "s4", "s5", "s6"}
  BugRebind = FALSE
  BugKeepOnFlush = FALSE
  MaxEv = 60
  MaxLogins = 6
  MaxT = 4
  MaxClean = 4
  MaxRank = 2
  ResSet = {"success", "fail", "unknown"}
  ArgsSet = {FALSE, TRUE}
  WithBad = TRUE
  PathDepth = 2
  AuditSessions = {"s1", "s2", "s3", "s4", "s5", "s6", "unset", ""}
ACTION_CONSTRAINT SimExport
CHECK_DEADLOCK FALSE
