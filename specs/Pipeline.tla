------------------------------ MODULE Pipeline ------------------------------
(***************************************************************************)
(* The daemon (cmd/namedpipe.go): three errgroup workers sharing one       *)
(* cancellable context                                                     *)
(*                                                                         *)
(*   S  sshd pipe ingester   open FIFO -> read line -> sshd processor      *)
(*                           (write event; accepted login: hand it to P    *)
(*                           over the unbuffered `logins` channel)         *)
(*   A  audit pipe ingester  open FIFO -> read line -> send it on the      *)
(*                           buffered auditLogChan (capacity Cap)          *)
(*   P  audit processor      Auditd.Read select loop (ctx | login | parse  *)
(*                           goroutine done | reassembler error) plus its  *)
(*                           parse goroutine taking lines off the channel  *)
(*                                                                         *)
(* and their environment: two pipe writers (open, write good / bad lines,  *)
(* close), the output file (writes may fail), termination signals.         *)
(* The first worker that returns a non-nil error cancels the context;      *)
(* the process exits when all three have returned (C08, C13).              *)
(*                                                                         *)
(* CtxAwareSend = TRUE   the tree after the C08/C13 repair: the audit      *)
(*                       ingester's channel send selects on the context    *)
(* CtxAwareSend = FALSE  the pinned tree: a bare channel send              *)
(***************************************************************************)
EXTENDS Integers, Sequences, FiniteSets, TLC

CONSTANTS Cap,            \* capacity of auditLogChan
          MaxLines,       \* lines each writer may write
          CtxAwareSend,
          PipeCap,        \* lines a FIFO holds
          Http,           \* TRUE: --metrics/--healthz given: the HTTP server and its shutdown waiter are two more workers
          AuditMetrics,   \* TRUE: --audit-metrics given: one more worker (a ticker loop that stats the audit log)
          Flood           \* TRUE: the audit writer always has another line (sustained load)

VARIABLES
    ctx,        \* "live" | "cancelled"
    sig,        \* a termination signal was delivered
    spc, apc, ppc, gpc,   \* program counters: S, A, P (select loop), parse goroutine
    sret, aret, pret,     \* return values: "none" | "err" | "ctx"
    swr, awr,   \* writers: "absent" | "open" | "closed"
    sleft, aleft,         \* lines the writers may still write
    spipe, apipe,         \* lines sitting in the FIFOs ("good" | "bad" | "accept" | "fail")
    chan,       \* number of lines in auditLogChan
    outok,      \* the output file accepts writes
    exit,       \* "running" | "exit0" | "exit1"
    hpc, wpc,   \* HTTP server worker (ListenAndServe) and its shutdown waiter: "off" | "run" | "returned"
    port,       \* "free" | "busy": whether :2112 can be bound
    mpc         \* audit-metrics worker (cmd/cmd.go handleAuditLogMetrics): "off" | "run" | "returned"

pvars == <<ctx, sig, spc, apc, ppc, gpc, sret, aret, pret, swr, awr, sleft, aleft, spipe, apipe, chan, outok,
           exit, hpc, wpc, port, mpc>>

PInit ==
    /\ ctx = "live" /\ sig = FALSE
    /\ spc = "opening" /\ apc = "opening" /\ ppc = "select" /\ gpc = "recv"
    /\ sret = "none" /\ aret = "none" /\ pret = "none"
    /\ swr = "absent" /\ awr = "absent" /\ sleft = MaxLines /\ aleft = MaxLines
    /\ spipe = <<>> /\ apipe = <<>> /\ chan = 0 /\ outok = TRUE /\ exit = "running"
    /\ hpc = (IF Http THEN "run" ELSE "off") /\ wpc = (IF Http THEN "run" ELSE "off")
    /\ port \in {"free", "busy"}
    /\ mpc = (IF AuditMetrics THEN "run" ELSE "off")

Cancelled == ctx = "cancelled"
CancelIf(b) == ctx' = IF b THEN "cancelled" ELSE ctx

(* ------------------------------ environment ---------------------------- *)
OpenS == swr = "absent" /\ swr' = "open" /\ UNCHANGED <<ctx, sig, spc, apc, ppc, gpc, sret, aret, pret, awr, sleft, aleft, spipe, apipe, chan, outok, exit, hpc, wpc, port, mpc>>
OpenA == awr = "absent" /\ awr' = "open" /\ UNCHANGED <<ctx, sig, spc, apc, ppc, gpc, sret, aret, pret, swr, sleft, aleft, spipe, apipe, chan, outok, exit, hpc, wpc, port, mpc>>
WriteS(k) ==
    /\ swr = "open" /\ sleft > 0 /\ Len(spipe) < PipeCap
    /\ spipe' = Append(spipe, k) /\ sleft' = sleft - 1
    /\ UNCHANGED <<ctx, sig, spc, apc, ppc, gpc, sret, aret, pret, swr, awr, aleft, apipe, chan, outok, exit, hpc, wpc, port, mpc>>
WriteA(k) ==
    /\ awr = "open" /\ (Flood \/ aleft > 0) /\ Len(apipe) < PipeCap
    /\ apipe' = Append(apipe, k) /\ aleft' = IF Flood THEN aleft ELSE aleft - 1
    /\ UNCHANGED <<ctx, sig, spc, apc, ppc, gpc, sret, aret, pret, swr, awr, sleft, spipe, chan, outok, exit, hpc, wpc, port, mpc>>
CloseS == swr = "open" /\ swr' = "closed" /\ UNCHANGED <<ctx, sig, spc, apc, ppc, gpc, sret, aret, pret, awr, sleft, aleft, spipe, apipe, chan, outok, exit, hpc, wpc, port, mpc>>
CloseA == awr = "open" /\ ~Flood /\ awr' = "closed" /\ UNCHANGED <<ctx, sig, spc, apc, ppc, gpc, sret, aret, pret, swr, sleft, aleft, spipe, apipe, chan, outok, exit, hpc, wpc, port, mpc>>
Signal == ~sig /\ sig' = TRUE /\ ctx' = "cancelled" /\ UNCHANGED <<spc, apc, ppc, gpc, sret, aret, pret, swr, awr, sleft, aleft, spipe, apipe, chan, outok, exit, hpc, wpc, port, mpc>>
OutputBreaks == outok /\ outok' = FALSE /\ UNCHANGED <<ctx, sig, spc, apc, ppc, gpc, sret, aret, pret, swr, awr, sleft, aleft, spipe, apipe, chan, exit, hpc, wpc, port, mpc>>

Env == OpenS \/ OpenA \/ (\E k \in {"accept", "fail"} : WriteS(k)) \/ (\E k \in {"good", "bad"} : WriteA(k))
       \/ CloseS \/ CloseA \/ Signal \/ OutputBreaks

(* ------------------------------ sshd ingester -------------------------- *)
\* NamedPipeIngester.Ingest: OpenFile in a goroutine, select on ctx
SOpen ==
    /\ spc = "opening"
    /\ \/ Cancelled /\ spc' = "returned" /\ sret' = "ctx"
       \/ swr # "absent" /\ spc' = "reading" /\ sret' = sret
    /\ UNCHANGED <<ctx, sig, apc, ppc, gpc, aret, pret, swr, awr, sleft, aleft, spipe, apipe, chan, outok, exit, hpc, wpc, port, mpc>>

\* ReadString: a line, or an error (EOF when the writer closed; once the context is cancelled the closer
\* goroutine has closed the file and the read fails - the few lines bufio may still hold are ignored here)
SRead ==
    /\ spc = "reading"
    /\ \/ spipe # <<>> /\ ~Cancelled /\ spc' = "process" /\ UNCHANGED <<spipe, sret, ctx>>
       \/ ((spipe = <<>> /\ swr = "closed") \/ Cancelled) /\ spc' = "returned" /\ sret' = "err" /\ ctx' = "cancelled"
          /\ UNCHANGED spipe
    /\ UNCHANGED <<sig, apc, ppc, gpc, aret, pret, swr, awr, sleft, aleft, apipe, chan, outok, exit, hpc, wpc, port, mpc>>

\* sshd processor: write the event (may fail), then for accepted logins the hand-off
SProcess ==
    /\ spc = "process"
    /\ LET k == Head(spipe) IN
       /\ spipe' = Tail(spipe)
       /\ IF ~outok THEN spc' = "returned" /\ sret' = "err" /\ ctx' = "cancelled"
          ELSE IF k = "accept" THEN spc' = "sendlogin" /\ UNCHANGED <<sret, ctx>>
          ELSE spc' = "reading" /\ UNCHANGED <<sret, ctx>>
    /\ UNCHANGED <<sig, apc, ppc, gpc, aret, pret, swr, awr, sleft, aleft, apipe, chan, outok, exit, hpc, wpc, port, mpc>>

\* select { ctx.Done | logins <- login }: the hand-off needs P in its select loop
SSendLogin ==
    /\ spc = "sendlogin"
    /\ (ppc = "select" \/ Cancelled)
    /\ spc' = "reading"
    /\ UNCHANGED <<ctx, sig, apc, ppc, gpc, sret, aret, pret, swr, awr, sleft, aleft, spipe, apipe, chan, outok, exit, hpc, wpc, port, mpc>>

(* ------------------------------ audit ingester ------------------------- *)
AOpen ==
    /\ apc = "opening"
    /\ \/ Cancelled /\ apc' = "returned" /\ aret' = "ctx"
       \/ awr # "absent" /\ apc' = "reading" /\ aret' = aret
    /\ UNCHANGED <<ctx, sig, spc, ppc, gpc, sret, pret, swr, awr, sleft, aleft, spipe, apipe, chan, outok, exit, hpc, wpc, port, mpc>>

ARead ==
    /\ apc = "reading"
    /\ \/ apipe # <<>> /\ ~Cancelled /\ apc' = "sending" /\ UNCHANGED <<aret, ctx>>
       \/ ((apipe = <<>> /\ awr = "closed") \/ Cancelled) /\ apc' = "returned" /\ aret' = "err" /\ ctx' = "cancelled"
    /\ UNCHANGED <<sig, spc, ppc, gpc, sret, pret, swr, awr, sleft, aleft, spipe, apipe, chan, outok, exit, hpc, wpc, port, mpc>>

\* AuditLogIngester.Process: AuditLogChan <- line
ASend ==
    /\ apc = "sending"
    /\ \/ /\ chan < Cap
          /\ chan' = chan + 1 /\ apipe' = Tail(apipe) /\ apc' = "reading"
          /\ UNCHANGED <<aret, ctx>>
       \/ /\ CtxAwareSend /\ Cancelled
          /\ apc' = "returned" /\ aret' = "ctx" /\ UNCHANGED <<chan, apipe, ctx>>
    /\ UNCHANGED <<sig, spc, ppc, gpc, sret, pret, swr, awr, sleft, aleft, spipe, outok, exit, hpc, wpc, port, mpc>>

(* ------------------------------ audit processor ------------------------ *)
\* parse goroutine: take a line; a malformed line ends it with an error, a good
\* one may reach the output (which may fail: reassembler error)
GRecv ==
    /\ gpc = "recv"
    /\ \/ Cancelled /\ gpc' = "ctx" /\ UNCHANGED chan
       \/ chan > 0 /\ chan' = chan - 1 /\ gpc' \in {"recv", "parseerr"} \cup (IF outok THEN {} ELSE {"writeerr"})
    /\ UNCHANGED <<ctx, sig, spc, apc, ppc, sret, aret, pret, swr, awr, sleft, aleft, spipe, apipe, outok, exit, hpc, wpc, port, mpc>>

\* Auditd.Read select loop
PSelect ==
    /\ ppc = "select"
    /\ \/ Cancelled /\ pret' = "ctx" /\ UNCHANGED ctx
       \/ gpc \in {"parseerr", "writeerr", "ctx"} /\ pret' = "err" /\ ctx' = "cancelled"
    /\ ppc' = "returned"
    /\ UNCHANGED <<sig, spc, apc, gpc, sret, aret, swr, awr, sleft, aleft, spipe, apipe, chan, outok, exit, hpc, wpc, port, mpc>>

(* ------------------------------ HTTP server (cmd/cmd.go) ---------------- *)
\* server.ListenAndServe: fails at once when the port is taken (first error: cancels the group), otherwise
\* serves until Shutdown and then returns http.ErrServerClosed
HServe ==
    /\ hpc = "run"
    /\ \/ port = "busy" /\ ctx' = "cancelled"
       \/ port = "free" /\ wpc = "returned" /\ UNCHANGED ctx
    /\ hpc' = "returned"
    /\ UNCHANGED <<sig, spc, apc, ppc, gpc, sret, aret, pret, swr, awr, sleft, aleft, spipe, apipe, chan, outok, exit, wpc, port, mpc>>

\* the waiter: <-ctx.Done(); server.Shutdown(ctx)
HWait ==
    /\ wpc = "run" /\ Cancelled
    /\ wpc' = "returned"
    /\ UNCHANGED <<ctx, sig, spc, apc, ppc, gpc, sret, aret, pret, swr, awr, sleft, aleft, spipe, apipe, chan, outok, exit, hpc, port, mpc>>

(* ------------------------------ audit-log metrics (cmd/cmd.go) --------- *)
\* for { select { case <-ticker.C: stat the audit log, set two gauges (a failing stat is logged, the loop goes on);
\*                case <-ctx.Done(): return ctx.Err() } }  -- the tick changes nothing the model sees
MReturn ==
    /\ mpc = "run" /\ Cancelled
    /\ mpc' = "returned"
    /\ UNCHANGED <<ctx, sig, spc, apc, ppc, gpc, sret, aret, pret, swr, awr, sleft, aleft, spipe, apipe, chan, outok, exit, hpc, wpc, port>>

(* ------------------------------ errgroup / main ------------------------ *)
AllReturned == spc = "returned" /\ apc = "returned" /\ ppc = "returned" /\ hpc # "run" /\ wpc # "run" /\ mpc # "run"
Failure == sret = "err" \/ aret = "err" \/ pret = "err"

Exit ==
    /\ exit = "running" /\ AllReturned
    /\ exit' = "exit1"          \* eg.Wait returns the first non-nil error (ctx.Err() counts): log.Fatalln
    /\ UNCHANGED <<ctx, sig, spc, apc, ppc, gpc, sret, aret, pret, swr, awr, sleft, aleft, spipe, apipe, chan, outok, hpc, wpc, port, mpc>>

Worker == SOpen \/ SRead \/ SProcess \/ SSendLogin \/ AOpen \/ ARead \/ ASend \/ GRecv \/ PSelect \/ HServe \/ HWait \/ MReturn \/ Exit
PNext == Env \/ Worker \/ (exit # "running" /\ UNCHANGED pvars)

PSpec == PInit /\ [][PNext]_pvars
         /\ WF_pvars(SOpen) /\ WF_pvars(SRead) /\ WF_pvars(SProcess) /\ WF_pvars(SSendLogin)
         /\ WF_pvars(AOpen) /\ WF_pvars(ARead) /\ WF_pvars(ASend) /\ WF_pvars(GRecv) /\ WF_pvars(PSelect)
         /\ WF_pvars(HServe) /\ WF_pvars(HWait) /\ WF_pvars(MReturn) /\ WF_pvars(Exit)

(***************************************************************************)
(* C08 / C13                                                               *)
(***************************************************************************)
AnyReturned == spc = "returned" \/ apc = "returned" \/ ppc = "returned" \/ hpc = "returned"
FailStop     == AnyReturned ~> (exit # "running")
SignalStops  == sig ~> (exit # "running")
CancelStopsS == Cancelled ~> (spc = "returned")
CancelStopsA == Cancelled ~> (apc = "returned")
CancelStopsP == Cancelled ~> (ppc = "returned")
NonZeroOnFailure == (exit # "running" /\ Failure) => exit = "exit1"
\* a returned worker never runs again; the first error cancels the group
StaysReturned == [][(spc = "returned" => spc' = "returned") /\ (apc = "returned" => apc' = "returned")
                    /\ (ppc = "returned" => ppc' = "returned")]_pvars
ErrorCancels == (sret = "err" \/ aret = "err" \/ pret = "err") => Cancelled
(***************************************************************************)
(* C13, per worker: the blocking situations in which cancellation must be  *)
(* observed (realised one by one against the real workers by               *)
(* harness/cmd/workers and judged by PipelineTrace!WorkerChecks).          *)
(*   opening    waiting for a writer to open the FIFO                      *)
(*   reading    blocked reading an idle pipe                               *)
(*   partial    blocked with an unterminated record read                   *)
(*   sending    A: blocked handing a line to a full channel whose consumer *)
(*              has stopped; S: blocked handing a login to an absent       *)
(*              correlator                                                 *)
(*   flood      in the middle of sustained traffic                         *)
(*   idle/busy  P: select loop without / with traffic                      *)
(***************************************************************************)
BaseWorkerScenarios ==
    {[worker |-> "A", state |-> st, cap |-> c] : st \in {"opening", "reading", "partial", "flood"}, c \in {1}}
    \cup {[worker |-> "A", state |-> "sending", cap |-> c] : c \in {0, 1, 4, 64}}
    \cup {[worker |-> "A", state |-> "readingfull", cap |-> c] : c \in {1, 4}}
    \* the consumer of the line channel is away until a send is blocked, then takes everything: no line is lost
    \cup {[worker |-> "A", state |-> "sendingthrough", cap |-> c] : c \in {1, 4, 64}}
    \cup {[worker |-> "S", state |-> st, cap |-> 0] : st \in {"opening", "reading", "partial", "flood"}}
    \* S blocked handing over a login: cap selects the login variant (password, key, certificate, padded key)
    \cup {[worker |-> "S", state |-> "sending", cap |-> c] : c \in {0, 1, 2, 3}}
    \cup {[worker |-> "P", state |-> st, cap |-> c] : st \in {"idle", "busy", "loginpending"}, c \in {0, 4}}
    \* an event still being assembled when the context is cancelled: flushed before Read returns, not after
    \cup {[worker |-> "P", state |-> "inflight", cap |-> c] : c \in {0, 4}}
    \* ... and with an output that fails: the errors of the flush have no receiver any more, Read returns all the same
    \cup {[worker |-> "P", state |-> "inflightfail", cap |-> c] : c \in {0, 4}}
    \* cancelled with 1500 lines queued in the line channel and a write in progress: the queue is left alone
    \cup {[worker |-> "P", state |-> "backlog", cap |-> 3000]}
    \* a session without login holds events when the context is cancelled: it stays silent on the way out
    \cup {[worker |-> "P", state |-> "unboundcancel", cap |-> c] : c \in {0, 4}}
    \* the sshd worker is inside the event write when it is cancelled: nothing of that record after the return
    \cup {[worker |-> "S", state |-> "inflightwrite", cap |-> 0]}
    \* the pipe's path is removed (cap 0) / replaced by a new FIFO (cap 1) while the worker waits for a writer
    \cup {[worker |-> w, state |-> "openingunlinked", cap |-> c] : w \in {"A", "S"}, c \in {0, 1}}

\* stall: how long the worker has been in the blocking state when its context is cancelled (ms); the long stalls
\* look at workers that change their way of waiting after a while (a warning timer, a retry, a fallback)
WorkerScenarios ==
    {[worker |-> s.worker, state |-> s.state, cap |-> s.cap, stall |-> 0] : s \in BaseWorkerScenarios}
    \cup {[worker |-> s.worker, state |-> s.state, cap |-> s.cap, stall |-> 2600] :
            s \in {t \in BaseWorkerScenarios : t.state \in {"sending", "reading", "loginpending"} /\ t.cap \in {0, 1, 2, 3}}}
    \* the correlator is merely busy for a long while (nobody cancels) and then receives again: the login blocked in the
    \* hand-off must still arrive (C05); afterwards the worker is cancelled as in the other scenarios
    \cup {[worker |-> "S", state |-> "sendinglate", cap |-> c, stall |-> 6500] : c \in {0, 1, 2, 3}}
    \* the event of an accepted login cannot be written: the worker ends with that error (no cancellation involved)
    \cup {[worker |-> "S", state |-> "writefail", cap |-> 0, stall |-> 0]}
=============================================================================
