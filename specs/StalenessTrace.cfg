SPECIFICATION TSpec
CONSTANTS
  P = 60
CHECK_DEADLOCK FALSE
