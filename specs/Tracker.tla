------------------------------- MODULE Tracker -------------------------------
(***************************************************************************)
(* The correlator as a sequential object driven by every well-formed       *)
(* history of logins, audit events, cleanup calls and clock ticks.         *)
(*                                                                         *)
(*   exhaustive checking   Tracker_*.cfg  (properties as invariants)       *)
(*   history export        Tracker_export*.cfg (one JSON history per edge  *)
(*                         of the abstract state graph: shortest path to   *)
(*                         the source state + the edge) - replayed on the  *)
(*                         real sessionTracker by the harness              *)
(*   simulation            Tracker_sim*.cfg (long random histories)        *)
(***************************************************************************)
EXTENDS TrackerCore, Json

CONSTANTS
    MaxEv,       \* audit events per history
    MaxLogins,   \* logins per history
    MaxT,        \* clock ticks per history
    MaxClean,    \* cleanup calls per history
    MaxRank,     \* 1 = no PID reuse (C01), 2 = a pid may be used twice (C09)
    ResSet,      \* audit results explored            (C14)
    ArgsSet,     \* "event has process arguments"     (C14)
    WithBad,     \* explore unparsable LOGIN pids and invalid logins
    PathDepth,   \* export only: how many trailing calls distinguish two histories
    AuditSessions \* session field values explored (subset of Sessions \cup NullSessions)

VARIABLES
    st,      \* correlator state
    h,       \* history summary (inputs only)
    out,     \* emitted UserAction stream
    now,     \* discrete clock
    nev, nid, ncl,
    err,     \* last call returned an error
    hin      \* the input history itself (hidden by VIEW; exported)

vars == <<st, h, out, now, nev, nid, ncl, err, hin>>
View == <<st, h, out, now, nev, nid, ncl, err>>

Init ==
    /\ st = InitSt /\ h = InitH /\ out = <<>> /\ now = 0
    /\ nev = 0 /\ nid = 0 /\ ncl = 0 /\ err = FALSE /\ hin = <<>>

Do(call) ==
    /\ \E r \in SeqApply(st, call) :
          /\ st' = r.st
          /\ out' = out \o r.outs
          /\ err' = r.err
    /\ h' = HApply(h, call)
    /\ hin' = Append(hin, call)

Login(p) ==
    /\ nid < MaxLogins
    /\ PidFreeForLogin(h, p, MaxRank)
    /\ Do([k |-> "login", id |-> nid + 1, pid |-> p, at |-> now])
    /\ nid' = nid + 1
    /\ UNCHANGED <<now, nev, ncl>>

BadLogin ==
    /\ WithBad /\ ncl < MaxClean
    /\ Do([k |-> "badlogin"])
    /\ ncl' = ncl + 1
    /\ UNCHANGED <<now, nev, nid>>

Audit(s, typ, p, res, args) ==
    /\ nev < MaxEv
    /\ (typ = "LOGIN" /\ s \in Sessions) =>
           /\ h.opener[s] = 0                       \* one LOGIN record per session id
           /\ p # BadPid => PidFreeForSession(h, p, MaxRank)
    /\ Do([k |-> "audit", tag |-> nev + 1, sess |-> s, typ |-> typ, pid |-> p,
           res |-> res, args |-> args, at |-> now])
    /\ nev' = nev + 1
    /\ UNCHANGED <<now, nid, ncl>>

CleanS(c) ==
    /\ ncl < MaxClean
    /\ Do([k |-> "cleanS", c |-> c])
    /\ ncl' = ncl + 1
    /\ UNCHANGED <<now, nev, nid>>

CleanL(c) ==
    /\ ncl < MaxClean
    /\ Do([k |-> "cleanL", c |-> c])
    /\ ncl' = ncl + 1
    /\ UNCHANGED <<now, nev, nid>>

Tick ==
    /\ now < MaxT
    /\ now' = now + 1
    /\ hin' = Append(hin, [k |-> "tick"])
    /\ UNCHANGED <<st, h, out, nev, nid, ncl, err>>

PidChoices(typ) == IF typ = "LOGIN" THEN Pids \cup (IF WithBad THEN {BadPid} ELSE {}) ELSE {BadPid}

Next ==
    \/ \E p \in Pids : Login(p)
    \/ BadLogin
    \/ \E s \in AuditSessions, typ \in Types, res \in ResSet, args \in ArgsSet :
          \E p \in PidChoices(typ) : Audit(s, typ, p, res, args)
    \/ \E c \in 1..now : CleanS(c) \/ CleanL(c)
    \/ Tick

Spec == Init /\ [][Next]_vars

(***************************************************************************)
(* Properties (C01 C02 C04 C09 C14 C16 at the correlator API).              *)
(***************************************************************************)
Inv_Identity     == IdentityOK(h, out)
Inv_ExactlyOnce  == ExactlyOnce(h, out)
Inv_Silence      == Silence(h, out)
Inv_StaleDropped == StaleDropped(h, out)
Inv_Render       == RenderOK(h, out)

\* Nothing already emitted is ever retracted or reordered.
AppendOnly == [][Len(out') >= Len(out) /\ SubSeq(out', 1, Len(out)) = out]_vars

LastCall == hin'[Len(hin')]
Stepped  == Len(hin') > Len(hin)

\* C04, action form: an event without session, or of an unknown session and not
\* a LOGIN record, changes nothing.
IgnoredLeavesNoTrace ==
    [][(Stepped /\ LastCall.k = "audit" /\
          (LastCall.sess \in NullSessions \/
           (LastCall.sess \notin DOMAIN st.sess /\ LastCall.typ # "LOGIN")))
         => (st' = st /\ out' = out)]_vars

\* C16, state form: cleanup keeps every bound session and every item not older
\* than its cut-off, and removes every unbound older one.
CleanupExact ==
    [][/\ (Stepped /\ LastCall.k = "cleanS") =>
            /\ out' = out /\ st'.wait = st.wait
            /\ DOMAIN st'.sess = {s \in DOMAIN st.sess : st.sess[s].bound \/ st.sess[s].at >= LastCall.c}
            /\ \A s \in DOMAIN st'.sess : st'.sess[s] = st.sess[s]
       /\ (Stepped /\ LastCall.k = "cleanL") =>
            /\ out' = out /\ st'.sess = st.sess
            /\ DOMAIN st'.wait = {p \in DOMAIN st.wait : st.wait[p].at >= LastCall.c}
            /\ \A p \in DOMAIN st'.wait : st'.wait[p] = st.wait[p]]_vars

\* C09, state form: an ended session (CRED_DISP processed with its login
\* known) is gone from the correlator.
EndedReleased ==
    \A s \in Sessions : (Correlated(h, s) /\ h.closed[s]) => s \notin DOMAIN st.sess

\* No pending pair is left waiting for each other (used by C03 as well).
NoMutualWait ==
    \A s \in DOMAIN st.sess : ~st.sess[s].bound => st.sess[s].pid \notin DOMAIN st.wait

(***************************************************************************)
(* Export: every generated successor prints its whole input history.  The  *)
(* export VIEW is a coarse shape of the correlator state plus the part of  *)
(* the history summary the guards read: TLC then visits every (shape,      *)
(* action) pair once, reached by a shortest history - the edge cover the   *)
(* harness replays on the real code.  (Used to GENERATE histories only; no *)
(* verdict is read from a run with this VIEW.)                             *)
(***************************************************************************)
ShapeQ(q) == <<IF Len(q) > 2 THEN 2 ELSE Len(q), HasDisp(q)>>
ShapeSt ==
    <<[s \in DOMAIN st.sess |-> <<st.sess[s].pid, st.sess[s].bound, ShapeQ(st.sess[s].held), st.sess[s].at>>],
      [p \in DOMAIN st.wait |-> st.wait[p].at]>>
CallKind(c) == IF c.k = "audit" THEN <<c.k, c.typ>> ELSE <<c.k>>
LastKinds == [i \in 1..(IF Len(hin) < PathDepth THEN Len(hin) ELSE PathDepth) |->
                CallKind(hin[Len(hin) - i + 1])]
ExportView ==
    <<ShapeSt, h.opener, h.closed, h.staleS,
      [p \in Pids |-> [k \in 1..Len(h.lg[p]) |-> h.lg[p][k].stale]], now, err, LastKinds>>

ExportEdge == PrintT(<<"HIST", ToJson(hin')>>)

\* Simulation (long random histories): a history is printed when its last
\* audit event has been consumed.
SimExport == (nev' = MaxEv /\ nev < MaxEv) => PrintT(<<"HIST", ToJson(hin')>>)
=============================================================================
