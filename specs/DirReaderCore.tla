---------------------------- MODULE DirReaderCore ----------------------------
(***************************************************************************)
(* Constant-level part of the directory reader model: the initial          *)
(* directory contents explored, the two orderings of rotated files, line   *)
(* sizes, and the IDEAL delivery of a scenario (what C20 requires).        *)
(***************************************************************************)
EXTENDS Integers, Sequences, FiniteSets, TLC, Json

(***************************************************************************)
(* Initial directory contents: rotated files (suffix numbers, one line     *)
(* each, token = 1000 + suffix) and the live file.                         *)
(***************************************************************************)
InitTable ==
    << [rot |-> <<>>, live |-> 0, partial |-> 0, haslive |-> FALSE],          \* 1: empty directory
       [rot |-> <<>>, live |-> 2, partial |-> 0, haslive |-> TRUE],           \* 2: live file with two lines
       [rot |-> <<>>, live |-> 1, partial |-> 1, haslive |-> TRUE],           \* 3: live file ending in a partial line
       [rot |-> <<1, 2>>, live |-> 1, partial |-> 0, haslive |-> TRUE],       \* 4: two rotations
       [rot |-> <<1, 2, 3, 4, 5, 6, 7, 8, 9, 10, 11, 12>>, live |-> 1, partial |-> 0, haslive |-> TRUE],
       [rot |-> <<1, 2, 9, 10, 11, 99, 100, 101, 999>>, live |-> 0, partial |-> 0, haslive |-> TRUE],
       [rot |-> <<1, 10, 2>>, live |-> 0, partial |-> 0, haslive |-> FALSE],
       [rot |-> <<>>, live |-> 0, partial |-> 0, haslive |-> TRUE] >>        \* 8: empty live file

Sz(tok) == IF tok % 3 = 0 THEN 9 ELSE 2

\* order of the initial files
RECURSIVE SortDesc(_)
SortDesc(S) == IF S = {} THEN <<>> ELSE LET m == CHOOSE x \in S : \A y \in S : y <= x IN <<m>> \o SortDesc(S \ {m})
\* string order of decimal numerals, descending (the pinned behaviour)
Digits(n) == IF n < 10 THEN <<n>> ELSE IF n < 100 THEN <<n \div 10, n % 10>> ELSE <<n \div 100, (n \div 10) % 10, n % 10>>
RECURSIVE LexLess(_, _)
LexLess(a, b) == IF a = <<>> THEN b # <<>> ELSE IF b = <<>> THEN FALSE
                 ELSE IF Head(a) # Head(b) THEN Head(a) < Head(b) ELSE LexLess(Tail(a), Tail(b))
RECURSIVE SortLexDesc(_)
SortLexDesc(S) == IF S = {} THEN <<>> ELSE
    LET m == CHOOSE x \in S : \A y \in S \ {x} : LexLess(Digits(y), Digits(x)) IN <<m>> \o SortLexDesc(S \ {m})

IdealRotOrder(i) == SortDesc({InitTable[i].rot[k] : k \in 1..Len(InitTable[i].rot)})

LiveLines(i) == [k \in 1..InitTable[i].live |-> [tok |-> k, sz |-> Sz(k)]]
Toks(q) == [k \in 1..Len(q) |-> q[k].tok]
SumSz(q) == LET RECURSIVE S(_) S(k) == IF k = 0 THEN 0 ELSE q[k].sz + S(k - 1) IN S(Len(q))


\* what C20 requires for a scenario: the initial files oldest rotation first, the live file last, then every
\* line in the order it was completed
RECURSIVE IdealOps(_)
IdealOps(ops) == IF ops = <<>> THEN <<>>
                 ELSE (IF Head(ops).op \in {"append", "complete"} THEN <<Head(ops).tok>> ELSE <<>>) \o IdealOps(Tail(ops))
IdealOf(i, ops) == [k \in 1..Len(IdealRotOrder(i)) |-> 1000 + IdealRotOrder(i)[k]] \o Toks(LiveLines(i)) \o IdealOps(ops)
=============================================================================
