SPECIFICATION Spec
INVARIANTS AtMostOnce SentAfterWritten OnlyAccepted WriteFailure ErrOnlyOnFailure ForwardedUnlessCancelled
PROPERTIES NoSendBeforeWrite Progress StaysBlocked
CHECK_DEADLOCK FALSE
