SPECIFICATION Spec
INVARIANTS AtMostOnce SentAfterWritten OnlyAccepted WriteFailure ErrOnlyOnFailure ForwardedUnlessCancelled CountedOnce
PROPERTIES NoSendBeforeWrite Progress StaysBlocked
CHECK_DEADLOCK FALSE
