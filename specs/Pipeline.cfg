SPECIFICATION PSpec
CONSTANTS
  Cap = 1
  MaxLines = 1
  PipeCap = 1
  CtxAwareSend = TRUE
  Flood = TRUE
  AuditMetrics = TRUE
  Http = TRUE
INVARIANTS NonZeroOnFailure ErrorCancels
PROPERTIES FailStop SignalStops CancelStopsA CancelStopsS CancelStopsP StaysReturned
CHECK_DEADLOCK FALSE
