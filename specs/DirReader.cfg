SPECIFICATION DSpec
CONSTANTS
  MaxOps = 5
  FixLastSz = TRUE
  NumericSort = TRUE
  Inits = {1, 2, 3, 4, 5, 6, 7, 8}
INVARIANTS ExactlyOnceInOrder
CHECK_DEADLOCK FALSE
