------------------------------- MODULE HealthMC -------------------------------
EXTENDS Health

Add(c) == [op |-> "add", c |-> c]
Rdy(c) == [op |-> "ready", c |-> c]
St == [op |-> "status"]

\* GET /readyz || OnReady(a); AddReadiness(b) || OnReady(b)
H1 == [name |-> "H1", pre |-> <<Add("a")>>, threads |-> << <<St>>, <<Rdy("a"), Add("b")>>, <<Rdy("b")>> >>]
\* two requests racing the last component becoming ready
H2 == [name |-> "H2", pre |-> <<Add("a"), Add("b"), Rdy("a")>>, threads |-> << <<St>>, <<St>>, <<Rdy("b")>> >>]
\* re-registration racing a request
H3 == [name |-> "H3", pre |-> <<Add("a"), Rdy("a")>>, threads |-> << <<St, St>>, <<Add("a"), Rdy("a")>>, <<Add("c")>> >>]
\* start-up as in cmd.RunNamedPipe: three registrations, three ready marks, a probe
H4 == [name |-> "H4", pre |-> <<>>, threads |-> << <<Add("a"), Add("b"), Add("c")>>, <<Rdy("a")>>, <<Rdy("b"), Rdy("c")>>, <<St>> >>]

H1pre == H1.pre
H1threads == H1.threads
H2pre == H2.pre
H2threads == H2.threads
H3pre == H3.pre
H3threads == H3.threads
H4pre == H4.pre
H4threads == H4.threads

HPrograms == <<H1, H2, H3, H4>>
ASSUME PrintT(<<"PROGS", ToJson(HPrograms)>>)
=============================================================================
