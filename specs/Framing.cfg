SPECIFICATION FSpec
CONSTANTS
  MaxLen = 4
  Syms = {"x", "l", "d"}
INVARIANTS OnlyWholeRecordsInOrder StopsAtFirstError FinalResult
PROPERTIES Terminates
CHECK_DEADLOCK FALSE
