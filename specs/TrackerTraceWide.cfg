SPECIFICATION TSpec
CONSTANTS
  Pids = {1, 2, 3, 4, 5, 6, 7, 8, 9, 10, 11, 12, 13, 14, 15, 16, 17, 18, 19, 20, 21, 22, 23, 24, 25, 26, 27, 28, 29, 30, 31, 32, 33, 34, 35, 36, 37, 38, 39, 40}
  Sessions = {"s1", "s2", "s3", "s4", "s5", "s6", "s7", "s8", "s9", "s10", "s11", "s12", "s13", "s14", "s15", "s16", "s17", "s18", "s19", "s20", "s21", "s22", "s23", "s24", "s25", "s26", "s27", "s28", "s29", "s30", "s31", "s32", "s33", "s34", "s35", "s36", "s37", "s38", "s39", "s40"}
  BugRebind = FALSE
  BugKeepOnFlush = FALSE
  CheckState = FALSE
CHECK_DEADLOCK FALSE
