SPECIFICATION PSpec
CONSTANTS
  Cap = 1
  MaxLines = 0
  PipeCap = 1
  CtxAwareSend = TRUE
  Flood = FALSE
  AuditMetrics = FALSE
  Http = FALSE
CHECK_DEADLOCK FALSE
