------------------------------ MODULE HealthCore ------------------------------
(***************************************************************************)
(* Pure operators of the readiness model (no variables): the response the  *)
(* handler builds from a map value, C18's per-response consistency, the    *)
(* sequential semantics of registrations / ready-marks / status requests.  *)
(* Shared by Health.tla (design, TLC) and HealthTrace.tla (validation of   *)
(* executions of the real code).                                           *)
(***************************************************************************)
EXTENDS Integers, Sequences, FiniteSets, TLC, Json

CONSTANTS Comps     \* component names

Registered(mm) == {c \in Comps : mm[c] # "absent"}
AllReady(mm) == \A c \in Registered(mm) : mm[c] = "yes"

\* the response the handler builds from a map value
BodyOf(mm) == [comps |-> [c \in Registered(mm) |-> IF mm[c] = "yes" THEN "ok" ELSE "not-ready"],
               overall |-> IF AllReady(mm) THEN "ok" ELSE "not-ready"]
CodeOf(body) == IF body.overall = "ok" THEN 200 ELSE 503

\* C18, per response: 200 <=> overall ok <=> every listed component ok
Consistent(code, body) ==
    /\ (code = 200) <=> (body.overall = "ok")
    /\ (body.overall = "ok") <=> (\A c \in DOMAIN body.comps : body.comps[c] = "ok")
    /\ code \in {200, 503}

ApplyOp(mm, o) ==
    IF o.op = "add" THEN [mm EXCEPT ![o.c] = "no"]
    ELSE IF o.op = "ready" THEN [mm EXCEPT ![o.c] = "yes"]
    ELSE mm

RECURSIVE Fold(_, _)
Fold(mm, ops) == IF ops = <<>> THEN mm ELSE Fold(ApplyOp(mm, Head(ops)), Tail(ops))
M0(pre) == Fold([c \in Comps |-> "absent"], pre)

(***************************************************************************)
(* Sequential semantics (for validating real executions).                  *)
(***************************************************************************)
\* responses of every status operation in every sequential order of prog
RECURSIVE SeqResps(_, _, _, _)
SeqResps(prog, mm, ix, acc) ==
    LET ready == {t \in 1..Len(prog) : ix[t] <= Len(prog[t])} IN
    IF ready = {} THEN {acc}
    ELSE UNION { LET o == prog[t][ix[t]] IN
                 SeqResps(prog, ApplyOp(mm, o), [ix EXCEPT ![t] = @ + 1],
                          IF o.op = "status" THEN acc \cup {<<t, ix[t], CodeOf(BodyOf(mm)), BodyOf(mm)>>} ELSE acc)
                 : t \in ready }

SeqRespsOf(pre, prog) == SeqResps(prog, M0(pre), [t \in 1..Len(prog) |-> 1], {})

\* the same with a PROBE: one more status request issued after every thread has finished (thread 0); it must see the
\* readiness map the chosen sequential order ends with - an answer computed during the concurrent part must not
\* outlive it (a cache, a counter that drifted)
RECURSIVE SeqRespsP(_, _, _, _)
SeqRespsP(prog, mm, ix, acc) ==
    LET ready == {t \in 1..Len(prog) : ix[t] <= Len(prog[t])} IN
    IF ready = {} THEN {acc \cup {<<0, 1, CodeOf(BodyOf(mm)), BodyOf(mm)>>}}
    ELSE UNION { LET o == prog[t][ix[t]] IN
                 SeqRespsP(prog, ApplyOp(mm, o), [ix EXCEPT ![t] = @ + 1],
                           IF o.op = "status" THEN acc \cup {<<t, ix[t], CodeOf(BodyOf(mm)), BodyOf(mm)>>} ELSE acc)
                 : t \in ready }
SeqRespsProbedOf(pre, prog) == SeqRespsP(prog, M0(pre), [t \in 1..Len(prog) |-> 1], {})

=============================================================================
