----------------------------- MODULE SshdTrace -----------------------------
(***************************************************************************)
(* Validation of what the REAL sshd processor did for every vector of      *)
(* SshdLog.tla (harness/cmd/sshdvec).  One record per (vector,             *)
(* concretisation): the concrete line and pid, the expectation after token *)
(* substitution, and the observation of the direct delivery and of the     *)
(* delivery framed through the syslog ingester.  Each predicate below is   *)
(* the contract of one listed property; TLC evaluates all of them on every *)
(* record and prints a BAD line for each failure.                          *)
(***************************************************************************)
EXTENDS Integers, Sequences, FiniteSets, TLC, Json, SequencesExt

Trace == ndJsonDeserialize("trace.ndjson")

VARIABLES l, nbad
tvars == <<l, nbad>>

\* The literal beginnings of the recognised messages (C11, C19).
Keywords ==
    {"Accepted publickey", "Accepted password", "Certificate invalid", "Invalid user", "User ",
     "ROOT LOGIN REFUSED FROM ", "Authentication refused for ", "Nasty PTR record \"",
     "reverse mapping checking getaddrinfo for ", "Address ", "maximum authentication attempts exceeded for ",
     "Authentication key ", "Error checking authentication key ", "Failed password for "}

StartsKw(line) == \E k \in Keywords : IsPrefix(k, line)

Clean(o) == o.panic = "" /\ o.err = ""

\* C11: the universal post-condition.
Universal(o, line) ==
    /\ Clean(o)
    /\ Len(o.events) <= 1
    /\ Len(o.logins) > 0 => (Len(o.logins) = 1 /\ Len(o.events) = 1 /\ o.events[1].outcome = "succeeded")
    /\ Len(o.events) = 1 => StartsKw(line)
    /\ o.substr

\* C06: exactly the expected event.
Exact(o, r) ==
    /\ Clean(o)
    /\ Len(o.events) = 1
    /\ o.events[1] = r.event
    /\ o.tsok /\ o.tgtok /\ o.idok

\* C05: the forwarded login.
LoginOK(o, r) ==
    IF r.login.fwd
    THEN o.logins = <<[pid |-> r.pidint, cred |-> r.login.cred, same |-> TRUE, after |-> TRUE]>>
    ELSE o.logins = <<>>

\* C17: the recorded peer is the one sshd appended; the attempt is not dropped.
PeerOK(o, r) ==
    /\ Clean(o)
    /\ Len(o.events) = 1
    /\ o.events[1].outcome = "failed"
    /\ o.events[1].source.value = r.event.source.value
    /\ o.events[1].source.extra.port = r.event.source.extra.port

\* C19: counters.
Total(c) == LET RECURSIVE S(_) S(i) == IF i = 0 THEN 0 ELSE c[i].n + S(i - 1) IN S(Len(c))
CounterOK(o, line) ==
    /\ ~StartsKw(line) => o.ctr = <<>>
    /\ Len(o.events) = 1 =>
         /\ Len(o.ctr) = 1 /\ o.ctr[1].n = 1
         /\ o.ctr[1].outcome = (IF o.events[1].outcome = "succeeded" THEN "success" ELSE "failure")
         /\ IsPrefix("Accepted password", line) => o.ctr[1].method = "password"
         /\ IsPrefix("Accepted publickey", line) => o.ctr[1].method \in {"ssh-key", "ssh-cert"}
         /\ o.ctr[1].method = "password" => IsPrefix("Accepted password", line)
    /\ Len(o.events) = 0 => Total(o.ctr) <= 1      \* keyword lines without event: left open, but never more than one

\* C07: framed delivery = direct delivery.
FramedOK(r) == "framed" \in DOMAIN r => r.framed = r.direct

\* C07 at the pipe level: the record written to a real FIFO and read by the real
\* ingester chain yields the events and logins of the direct hand-over.
FifoOK(r) ==
    "fifo" \in DOMAIN r =>
        /\ r.fifo.err = ""
        /\ r.fifo.events = r.direct.events
        /\ r.fifo.logins = [i \in 1..Len(r.direct.logins) |-> [pid |-> r.direct.logins[i].pid, cred |-> r.direct.logins[i].cred]]

\* what the line added on the long-lived processor: once, and (for a third of the lines) once more right behind itself
StreamObs(r) == (IF "stream" \in DOMAIN r THEN {r.stream} ELSE {}) \cup (IF "stream2" \in DOMAIN r THEN {r.stream2} ELSE {})

\* C07, audit half: a record line parses to the same audit message with and without its newline
\* (records of kind "auditnl", harness/cmd/auditnl)
Checks(r) ==
    IF "k" \in DOMAIN r /\ r.k = "auditnl" THEN { <<"AuditNewline", r.same>> } ELSE
    \* C06 at the daemon: every event of a short run of the built binary carries this node's name (NODE_NAME, or the
    \* host name when that is empty or unset) and the machine id
    IF "k" \in DOMAIN r /\ r.k = "target"
    THEN { <<"Target", /\ r.events = r.sent
                       /\ \A i \in 1..Len(r.hosts) : r.hosts[i] = r.wanthost
                       /\ \A i \in 1..Len(r.mids) : r.mids[i] = r.wantmid>> } ELSE
    LET o == r.direct
        exact == r.fam \in {"grammar"}
    IN { <<"Universal", Universal(o, r.line)>>,
         <<"Counter",   CounterOK(o, r.line)>>,
         <<"Framed",    FramedOK(r)>>,
         <<"FifoEq",    FifoOK(r)>>,
         <<"Exact",     exact => Exact(o, r)>>,
         <<"Login",     exact => LoginOK(o, r)>>,
         <<"FramedExact", (exact /\ "framed" \in DOMAIN r) => (Exact(r.framed, r) /\ LoginOK(r.framed, r))>>,
         <<"FramedUniversal", "framed" \in DOMAIN r => Universal(r.framed, r.line)>>,
         <<"FramedCounter", "framed" \in DOMAIN r => CounterOK(r.framed, r.line)>>,
         \* the same line seen by ONE long-lived processor (one registry, one event sink for the whole run, as in the
         \* daemon): what the line adds is judged by the same predicates - no state may leak from line to line
         <<"StreamExact", exact => \A so \in StreamObs(r) : Exact(so, r) /\ LoginOK(so, r)>>,
         <<"StreamUniversal", \A so \in StreamObs(r) : Universal(so, r.line)>>,
         <<"StreamCounter", \A so \in StreamObs(r) : CounterOK(so, r.line)>>,
         \* a login handed to the correlator earlier keeps the event it was handed over with (the correlator renders the
         \* identity of later events from it: C01 rests on it)
         <<"StreamLoginStable", \A so \in StreamObs(r) : so.stable>>,
         <<"StreamPeer", r.fam = "hostile" => \A so \in StreamObs(r) : PeerOK(so, r)>>,
         <<"Peer",      r.fam = "hostile" => PeerOK(o, r)>>,
         <<"FramedPeer", (r.fam = "hostile" /\ "framed" \in DOMAIN r) => PeerOK(r.framed, r)>> }

TInit == l = 1 /\ nbad = 0

Step ==
    /\ l <= Len(Trace)
    /\ LET r == Trace[l]
           bad == {c[1] : c \in {x \in Checks(r) : ~x[2]}}
       IN /\ \A b \in bad : PrintT(<<"BAD", ToJson([vec |-> r.vec, conc |-> r.conc, line |-> l, what |-> b])>>)
          /\ nbad' = nbad + Cardinality(bad)
    /\ l' = l + 1
    /\ (l' = Len(Trace) + 1) => PrintT(<<"DONE", ToJson([lines |-> Len(Trace), bad |-> nbad'])>>)

TSpec == TInit /\ [][Step]_tvars
=============================================================================
