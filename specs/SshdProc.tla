------------------------------ MODULE SshdProc ------------------------------
(***************************************************************************)
(* One sshd line inside the sshd worker (processors/sshd/sshdprocessor.go): *)
(*    dispatch -> Write(UserLogin) -> select { ctx.Done | logins <- login } *)
(* with its environment: the event writer may fail, the correlator          *)
(* (receiver of the unbuffered `logins` channel) may be ready from the      *)
(* start, only once the worker is blocked, or never, and the context may    *)
(* be cancelled before the line or while the hand-off is blocked (C05, and  *)
(* the causal half of C10: the event is written before the login exists).   *)
(*                                                                         *)
(* The environment is scripted: sc is one of Scenarios; TLC explores every  *)
(* script x every interleaving, the harness (cmd/sshdproc) realises every   *)
(* script against the real processor and SshdProcTrace validates what it    *)
(* recorded.                                                               *)
(***************************************************************************)
EXTENDS Integers, Sequences, TLC, Json

VARIABLES sc, pc, written, nwrites, sent, ret, cancelled, rcv,
          counted    \* increments of the remote-logins counter caused by this line (C19)

vars == <<sc, pc, written, nwrites, sent, ret, cancelled, rcv, counted>>

Kinds == {"accepted", "failed", "unrecognised"}

Scenarios ==
    [kind : Kinds, wok : BOOLEAN, rcvWhen : {"start", "blocked", "never"},
     cancelWhen : {"never", "before", "blocked"}]

Init ==
    /\ sc \in Scenarios
    /\ pc = "idle" /\ written = FALSE /\ nwrites = 0 /\ sent = 0 /\ ret = "none"
    /\ cancelled = (sc.cancelWhen = "before")
    /\ rcv = IF sc.rcvWhen = "start" THEN "ready" ELSE "absent"
    /\ counted = 0

\* ProcessEntry: prefix / pattern dispatch.
Start ==
    /\ pc = "idle"
    /\ pc' = IF sc.kind = "unrecognised" THEN "returned" ELSE "writing"
    /\ ret' = IF sc.kind = "unrecognised" THEN "nil" ELSE ret
    \* the counter is bumped by the dispatch (or by the handler just before the write): before the event exists
    /\ counted' = IF sc.kind = "unrecognised" THEN counted ELSE counted + 1
    /\ UNCHANGED <<sc, written, nwrites, sent, cancelled, rcv>>

\* eventW.Write(evt): one call; an error is returned to the caller, wrapped.
Write ==
    /\ pc = "writing"
    /\ nwrites' = nwrites + 1
    /\ written' = sc.wok
    /\ IF ~sc.wok THEN pc' = "returned" /\ ret' = "err"
       ELSE IF sc.kind = "accepted" THEN pc' = "sending" /\ ret' = ret
       ELSE pc' = "returned" /\ ret' = "nil"
    /\ UNCHANGED <<sc, sent, cancelled, rcv, counted>>

\* select case: logins <- RemoteUserLogin{...}
Send ==
    /\ pc = "sending" /\ rcv = "ready"
    /\ sent' = sent + 1 /\ pc' = "returned" /\ ret' = "nil"
    /\ UNCHANGED <<sc, written, nwrites, cancelled, rcv, counted>>

\* select case: <-ctx.Done()
Abort ==
    /\ pc = "sending" /\ cancelled
    /\ pc' = "returned" /\ ret' = "nil"
    /\ UNCHANGED <<sc, written, nwrites, sent, cancelled, rcv, counted>>

\* environment
EnvReady ==
    /\ sc.rcvWhen = "blocked" /\ pc = "sending" /\ rcv = "absent"
    /\ rcv' = "ready"
    /\ UNCHANGED <<sc, pc, written, nwrites, sent, ret, cancelled, counted>>

EnvCancel ==
    /\ sc.cancelWhen = "blocked" /\ pc = "sending" /\ ~cancelled
    /\ cancelled' = TRUE
    /\ UNCHANGED <<sc, pc, written, nwrites, sent, ret, rcv, counted>>

Next == Start \/ Write \/ Send \/ Abort \/ EnvReady \/ EnvCancel

Fair == WF_vars(Start) /\ WF_vars(Write) /\ WF_vars(Send) /\ WF_vars(Abort) /\ WF_vars(EnvReady) /\ WF_vars(EnvCancel)
Spec == Init /\ [][Next]_vars /\ Fair

(***************************************************************************)
(* C05                                                                     *)
(***************************************************************************)
AtMostOnce       == sent <= 1 /\ nwrites <= 1
SentAfterWritten == sent > 0 => written
OnlyAccepted     == sent > 0 => sc.kind = "accepted"
WriteFailure     == (nwrites = 1 /\ ~sc.wok) => (sent = 0 /\ ret = "err")
ErrOnlyOnFailure == ret = "err" => (nwrites = 1 /\ ~sc.wok)
\* "unless its context is cancelled, forwards exactly one login"
ForwardedUnlessCancelled == (pc = "returned" /\ sc.kind = "accepted" /\ sc.wok /\ ~cancelled) => sent = 1
\* C19 on this path: an emitted event has been counted exactly once by the time the worker has returned - whether the
\* hand-off happened or was abandoned - and nothing is counted twice
CountedOnce == counted <= 1 /\ ((pc = "returned" /\ written) => counted = 1)
\* the hand-off never happens before the write completed (C10, causal order)
NoSendBeforeWrite == [][sent' > sent => written]_vars
\* progress: a blocked hand-off ends once the receiver is ready or the context is cancelled
Progress == (pc = "sending" /\ (rcv = "ready" \/ cancelled)) ~> (pc = "returned")
\* and it stays blocked otherwise (the worker does not drop the login)
StaysBlocked == [][(pc = "sending" /\ rcv = "absent" /\ ~cancelled /\ rcv' = "absent" /\ ~cancelled') => pc' = "sending"]_vars

\* export of the scripts
EmitScenario == PrintT(<<"SCEN", ToJson(sc)>>)
=============================================================================
