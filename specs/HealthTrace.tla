------------------------------ MODULE HealthTrace ------------------------------
(***************************************************************************)
(* Validation of executions of the REAL internal/health (harness/cmd/      *)
(* healthh) against Health.tla:                                            *)
(*   seq   a sequential history of registrations / ready-marks with the    *)
(*         response of GET /readyz after every prefix;                     *)
(*   conc  one distinct outcome (set of responses) of a concurrent program *)
(*         under the controlled scheduler;                                 *)
(*   wait  an event log of WaitForReady.                                   *)
(***************************************************************************)
EXTENDS HealthCore, SequencesExt

Trace == ndJsonDeserialize("trace.ndjson")

VARIABLES l, nbad
tvars == <<l, nbad>>

EmptySeq == <<>>

RespOK(mm, r) ==
    /\ r.code = CodeOf(BodyOf(mm))
    /\ r.body.overall = BodyOf(mm).overall
    /\ r.body.comps = BodyOf(mm).comps
    /\ Consistent(r.code, r.body)

RECURSIVE SeqOK(_, _, _)
SeqOK(mm, ops, rs) ==
    /\ RespOK(mm, Head(rs))
    /\ IF ops = <<>> THEN TRUE ELSE SeqOK(ApplyOp(mm, Head(ops)), Tail(ops), Tail(rs))

ConcChecks(r) ==
    IF r.deadlock THEN {"Deadlock"} ELSE IF r.hang THEN {"Hang"} ELSE IF r.panic # "" THEN {"Panic"}
    ELSE LET got == {<<x.t, x.i, x.code, [comps |-> x.body.comps, overall |-> x.body.overall]>> : x \in ToSet(r.resps)}
         IN (IF \A x \in ToSet(r.resps) : Consistent(x.code, x.body) THEN {} ELSE {"Inconsistent"})
            \cup (IF got \in SeqRespsProbedOf(r.pre, r.threads) THEN {} ELSE {"Linearizable"})

\* WaitForReady: fold over the event log
RECURSIVE WaitFold(_, _, _)
WaitFold(ev, i, s) ==
    IF i > Len(ev) THEN s.bad
    ELSE LET e == ev[i] IN
         IF e.e = "op"
         THEN LET m2 == ApplyOp(s.m, e.o) IN
              WaitFold(ev, i + 1, [s EXCEPT !.m = m2, !.ever = s.ever \/ (s.started /\ AllReady(m2)),
                                            !.stable = IF AllReady(m2) THEN s.stable ELSE 0])
         ELSE IF e.e = "start"
         THEN WaitFold(ev, i + 1, [s EXCEPT !.started = TRUE, !.ever = AllReady(s.m), !.first = s.cancelled])
         ELSE IF e.e = "cancel"
         THEN WaitFold(ev, i + 1, [s EXCEPT !.cancelled = TRUE, !.since = 0])
         ELSE IF e.e = "sleep"
         THEN WaitFold(ev, i + 1, [s EXCEPT !.stable = IF AllReady(s.m) THEN s.stable + 1 ELSE 0,
                                            !.since = IF s.cancelled THEN s.since + 1 ELSE 0])
         ELSE \* observation
              LET bad1 == IF e.state = "closed" /\ ~(s.started /\ s.ever) THEN {"ClosedBeforeReady"} ELSE {}
                  bad2 == IF e.state = "err" /\ ~(s.cancelled /\ e.isctx) THEN {"ErrWithoutCancel"} ELSE {}
                  bad3 == IF e.state = "pending" /\ s.started /\ ~s.cancelled /\ s.stable >= 1 THEN {"NeverCloses"} ELSE {}
                  bad4 == IF e.state = "pending" /\ s.cancelled /\ s.since >= 1 THEN {"CancelIgnored"} ELSE {}
                  bad5 == IF e.state = "closed" /\ s.cancelled /\ ~s.ever THEN {"ClosedAfterCancel"} ELSE {}
                  \* the context was cancelled before the wait started: the waiter was cancelled first and must say so,
                  \* ready or not
                  bad6 == IF e.state = "closed" /\ s.first THEN {"ClosedThoughCancelledFirst"} ELSE {}
              IN WaitFold(ev, i + 1, [s EXCEPT !.bad = s.bad \cup bad1 \cup bad2 \cup bad3 \cup bad4 \cup bad5 \cup bad6])

WaitChecks(r) ==
    WaitFold(r.events, 1, [m |-> [c \in Comps |-> "absent"], started |-> FALSE, ever |-> FALSE, cancelled |-> FALSE, first |-> FALSE,
                           stable |-> 0, since |-> 0, bad |-> {}])

Checks(r) ==
    CASE r.k = "seq"  -> IF SeqOK([c \in Comps |-> "absent"], r.ops, r.resps) THEN {} ELSE {"Sequential"}
      [] r.k = "conc" -> ConcChecks(r)
      [] r.k = "wait" -> WaitChecks(r)
      [] OTHER        -> {"UnknownRecord"}

TInit == l = 1 /\ nbad = 0

Step ==
    /\ l <= Len(Trace)
    /\ LET r == Trace[l]
           bad == Checks(r)
       IN /\ \A b \in bad : PrintT(<<"BAD", ToJson([rec |-> r.id, line |-> l, what |-> b])>>)
          /\ nbad' = nbad + Cardinality(bad)
    /\ l' = l + 1
    /\ (l' = Len(Trace) + 1) => PrintT(<<"DONE", ToJson([lines |-> Len(Trace), bad |-> nbad'])>>)

TSpec == TInit /\ [][Step]_tvars
=============================================================================
