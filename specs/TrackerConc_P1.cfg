SPECIFICATION CSpec
CONSTANTS
  Pids = {1, 2}
  Sessions = {"s1", "s2"}
  BugRebind = FALSE
  BugKeepOnFlush = FALSE
  TrackerMutex = TRUE
  Prog <- P1
  Post <- Probe1
INVARIANTS Linearizable NoLostWakeup
PROPERTIES Terminates
