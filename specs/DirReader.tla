------------------------------ MODULE DirReader ------------------------------
(***************************************************************************)
(* processors/auditd/dirreader: read the audit log directory - first the   *)
(* files present at start, oldest rotation to the live file, then tail the *)
(* live file `audit.log` across appends (also appends that split a line),  *)
(* rotation (rename + create) and truncation, driven by file-system        *)
(* events, each processed before the next change (C20).                    *)
(*                                                                         *)
(* The REAL tailing algorithm (offset / lastSz book-keeping of             *)
(* rotatingFile.read) is modelled next to the IDEAL ("every complete line  *)
(* once, in order"); TLC shows where they part.  Sizes are in abstract     *)
(* units: a short line is 2 units, a long one (longer than the read        *)
(* buffer) 9, a partial piece 1.                                           *)
(*                                                                         *)
(*   FixLastSz = TRUE    after the repair: the initial read also           *)
(*                       initialises lastSz                                *)
(*   NumericSort = TRUE  after the repair: rotated files are ordered by    *)
(*                       their numeric suffix                              *)
(***************************************************************************)
EXTENDS DirReaderCore

CONSTANTS MaxOps, FixLastSz, NumericSort,
          Inits        \* set of initial directory contents explored (indices into InitTable)

VARIABLES live,      \* the live file: [lines |-> Seq([tok, sz]), partial |-> 0 or 1 (units of unterminated data), ptok]
          exists,    \* audit.log exists
          offset, lastSz,
          delivered, \* tokens handed to Lines()
          ideal,     \* tokens the property requires
          ntok, hist, init

dvars == <<live, exists, offset, lastSz, delivered, ideal, ntok, hist, init>>

RotOrder(i) == LET S == {InitTable[i].rot[k] : k \in 1..Len(InitTable[i].rot)}
               IN IF NumericSort THEN SortDesc(S) ELSE SortLexDesc(S)

DInit ==
    /\ init \in Inits
    /\ live = [lines |-> LiveLines(init), partial |-> InitTable[init].partial, ptok |-> 51]
    /\ exists = InitTable[init].haslive
    /\ offset = SumSz(LiveLines(init))
    /\ lastSz = IF FixLastSz THEN SumSz(LiveLines(init)) ELSE 0
    /\ delivered = [k \in 1..Len(RotOrder(init)) |-> 1000 + RotOrder(init)[k]] \o Toks(LiveLines(init))
    /\ ideal = [k \in 1..Len(IdealRotOrder(init)) |-> 1000 + IdealRotOrder(init)[k]] \o Toks(LiveLines(init))
    /\ ntok = 100 /\ hist = <<>>

Size(f) == SumSz(f.lines) + f.partial

\* lines of f that a reader positioned at unit `off` hands over: whole lines
\* starting at or after off; a line that off cuts in two is handed over torn
RECURSIVE ReadFrom(_, _, _)
ReadFrom(q, off, pos) ==
    IF q = <<>> THEN <<>>
    ELSE LET l == Head(q) IN
         IF pos + l.sz <= off THEN ReadFrom(Tail(q), off, pos + l.sz)
         ELSE IF pos < off THEN <<-l.tok>> \o ReadFrom(Tail(q), off, pos + l.sz)     \* torn line
         ELSE <<l.tok>> \o ReadFrom(Tail(q), off, pos + l.sz)

\* rotatingFile.read on an fsnotify.Write event
OnWrite(f) ==
    LET cur == Size(f)
        off1 == IF cur < lastSz THEN 0 ELSE offset
        got == ReadFrom(f.lines, off1, 0)
        \* bytes consumed = complete lines read from off1 (if off1 is beyond the data nothing is read)
        consumed == IF off1 >= SumSz(f.lines) THEN 0 ELSE SumSz(f.lines) - off1
    IN /\ lastSz' = cur
       /\ delivered' = delivered \o got
       /\ offset' = off1 + consumed

Record(op) == hist' = Append(hist, op)

Append1 ==
    /\ exists /\ live.partial = 0
    /\ LET t == ntok + 1 IN
       /\ live' = [live EXCEPT !.lines = Append(@, [tok |-> t, sz |-> Sz(t)])]
       /\ ideal' = Append(ideal, t)
       /\ ntok' = t
    /\ OnWrite(live')
    /\ Record([op |-> "append", tok |-> ntok + 1])
    /\ UNCHANGED <<exists, init>>

AppendPartial ==
    /\ exists /\ live.partial = 0
    /\ live' = [live EXCEPT !.partial = 1, !.ptok = ntok + 1]
    /\ ntok' = ntok + 1
    /\ ideal' = ideal
    /\ OnWrite(live')
    /\ Record([op |-> "partial", tok |-> ntok + 1])
    /\ UNCHANGED <<exists, init>>

Complete ==
    /\ exists /\ live.partial = 1
    /\ live' = [live EXCEPT !.lines = Append(@, [tok |-> live.ptok, sz |-> Sz(live.ptok)]), !.partial = 0]
    /\ ideal' = Append(ideal, live.ptok)
    /\ OnWrite(live')
    /\ Record([op |-> "complete", tok |-> live.ptok])
    /\ UNCHANGED <<exists, ntok, init>>

\* rename audit.log -> audit.log.1 (Rename event), create an empty audit.log (Create event)
Rotate ==
    /\ exists
    /\ live' = [lines |-> <<>>, partial |-> 0, ptok |-> 51]
    /\ offset' = 0
    /\ Record([op |-> "rotate"])
    /\ UNCHANGED <<exists, lastSz, delivered, ideal, ntok, init>>

\* truncation to zero length (a Write event)
Truncate ==
    /\ exists
    /\ live' = [lines |-> <<>>, partial |-> 0, ptok |-> 51]
    /\ OnWrite(live')
    /\ ideal' = ideal
    /\ Record([op |-> "truncate"])
    /\ UNCHANGED <<exists, ntok, init>>

\* the live file appears for the first time (Create event)
Create ==
    /\ ~exists
    /\ exists' = TRUE /\ offset' = 0
    /\ Record([op |-> "create"])
    /\ UNCHANGED <<live, lastSz, delivered, ideal, ntok, init>>

\* an old rotated file is pruned (a Remove event for a sibling of the live file, outside any rotation): the live file
\* has not changed, nothing is read, nothing is forgotten. Not twice in a row (it would only stutter).
Prune ==
    /\ (IF hist = <<>> THEN TRUE ELSE hist[Len(hist)].op # "prune")
    /\ Record([op |-> "prune"])
    /\ UNCHANGED <<live, exists, offset, lastSz, delivered, ideal, ntok, init>>

DNext == Len(hist) < MaxOps /\ (Append1 \/ AppendPartial \/ Complete \/ Rotate \/ Truncate \/ Create \/ Prune)
DSpec == DInit /\ [][DNext]_dvars

\* C20
ExactlyOnceInOrder == delivered = ideal

EmitScenario == PrintT(<<"SCEN", ToJson([init |-> init, ops |-> hist])>>)
=============================================================================
