SPECIFICATION SSpec
CONSTANTS
  SComps = {"a", "b", "c"}
  MaxLen = 4
INVARIANTS EmitHist
CHECK_DEADLOCK FALSE
