SPECIFICATION CSpec
CONSTANTS
  Pids = {1, 2}
  Sessions = {"s1", "s2"}
  BugRebind = FALSE
  BugKeepOnFlush = FALSE
  TrackerMutex = TRUE
  Prog <- P12
  Post <- ProbeS
INVARIANTS Linearizable NoLostWakeup
PROPERTIES Terminates
