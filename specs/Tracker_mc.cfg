SPECIFICATION Spec
CONSTANTS
  Pids = {1, 2}
  Sessions = {"s1", "s2"}
  BugRebind = FALSE
  BugKeepOnFlush = FALSE
  MaxEv = 5
  MaxLogins = 2
  MaxT = 1
  MaxClean = 1
  MaxRank = 1
  ResSet = {"success"}
  ArgsSet = {FALSE}
  WithBad = FALSE
  PathDepth = 2
  AuditSessions = {"s1", "s2", "unset"}
VIEW View
INVARIANTS Inv_Identity Inv_ExactlyOnce Inv_Silence Inv_StaleDropped Inv_Render EndedReleased NoMutualWait
PROPERTIES AppendOnly IgnoredLeavesNoTrace CleanupExact
CHECK_DEADLOCK FALSE
