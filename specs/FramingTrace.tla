----------------------------- MODULE FramingTrace -----------------------------
(***************************************************************************)
(* Validation of what the REAL NamedPipeIngester did for every scenario of *)
(* Framing.tla, realised through a real FIFO by harness/cmd/framing: the   *)
(* writer performs exactly the scenario's write calls and waits after each *)
(* until the pipe is drained, so partial records really are seen           *)
(* partially.  Call-back arguments are decoded back to stream positions.   *)
(***************************************************************************)
EXTENDS Framing

Trace == ndJsonDeserialize("trace.ndjson")

VARIABLES l, nbad
tvars == <<l, nbad>>

Checks(r) ==
    LET s == [stream |-> r.stream, cuts |-> {r.cuts[i] : i \in 1..Len(r.cuts)}, errAt |-> r.errAt]
        e == Expected(s)
    IN (IF r.calls = e.calls THEN {} ELSE {"Records"})
       \cup (IF r.ret = e.ret THEN {} ELSE {"Return"})
       \cup (IF r.ret = "cb" /\ ~r.same THEN {"ErrorIdentity"} ELSE {})
       \cup (IF r.late > 0 THEN {"DeliveredAfterReturn"} ELSE {})

TInit ==
    /\ l = 1 /\ nbad = 0
    /\ sc = [stream |-> <<>>, cuts |-> {}, errAt |-> 0]
    /\ written = 0 /\ pipe = <<>> /\ buf = <<>> /\ calls = <<>> /\ ret = "none" /\ closed = FALSE
Step ==
    /\ l <= Len(Trace)
    /\ LET r == Trace[l]
           bad == Checks(r)
       IN /\ \A b \in bad : PrintT(<<"BAD", ToJson([rec |-> r.id, line |-> l, what |-> b])>>)
          /\ nbad' = nbad + Cardinality(bad)
    /\ l' = l + 1
    /\ (l' = Len(Trace) + 1) => PrintT(<<"DONE", ToJson([lines |-> Len(Trace), bad |-> nbad'])>>)
    /\ UNCHANGED fvars
TSpec == TInit /\ [][Step]_<<tvars, fvars>>
=============================================================================
