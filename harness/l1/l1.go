// Package l1 drives the real sessionTracker at its API ("L1"): it turns the
// abstract calls of specs/Tracker.tla (model pids, sessions, event tags,
// login ids, a discrete clock) into concrete calls, and projects what the real
// code emitted and stored back into the vocabulary of the specification.
// It contains no oracle: verdicts are TLC's, on the recorded traces.
package l1

import (
	"encoding/json"
	"fmt"
	"math/rand"
	"reflect"
	"sort"
	"strconv"
	"strings"
	"sync"
	"sync/atomic"
	"time"

	"github.com/elastic/go-libaudit/v2/aucoalesce"
	"github.com/elastic/go-libaudit/v2/auparse"
	"github.com/metal-toolbox/auditevent"

	"github.com/metal-toolbox/audito-maldito/internal/common"
	"github.com/metal-toolbox/audito-maldito/processors/auditd/sessiontracker"
)

// Call is one abstract input of a history (a record of hin in Tracker.tla).
type Call struct {
	K    string `json:"k"`
	ID   int    `json:"id,omitempty"`
	Pid  int    `json:"pid"`
	At   int    `json:"at"`
	Tag  int    `json:"tag,omitempty"`
	Sess string `json:"sess"`
	Typ  string `json:"typ,omitempty"`
	Res  string `json:"res,omitempty"`
	Args bool   `json:"args"`
	C    int    `json:"c,omitempty"`
	Bad  string `json:"bad,omitempty"` // badlogin flavour: nosrc | pid0 | pidneg | nocred
}

// Out is the projection of one emitted UserAction.
type Out struct {
	Sess string `json:"sess"`
	Tag  int    `json:"tag"`
	ID   int    `json:"id"`
	Oc   string `json:"oc"`
	Args bool   `json:"args"`
	Wf   bool   `json:"wf"`
}

type SessProj struct {
	S     string `json:"s"`
	Pid   int    `json:"pid"`
	Bound bool   `json:"bound"`
	ID    int    `json:"id"`
	Held  []int  `json:"held"`
	At    int    `json:"at"`
}

type WaitProj struct {
	Pid int `json:"pid"`
	ID  int `json:"id"`
	At  int `json:"at"`
}

type StProj struct {
	Sess []SessProj `json:"sess"`
	Wait []WaitProj `json:"wait"`
}

// Rec is one trace record (one line of the ndjson trace).
type Rec struct {
	Call
	Outs []Out   `json:"outs"`
	Err  bool    `json:"err"`
	ErrS string  `json:"errs,omitempty"`
	St   *StProj `json:"st,omitempty"`
	Mut  bool    `json:"mut"`
}

// Encoder captures the events handed to the auditevent.EventWriter, serialised
// at the moment of the call (later mutation of the object cannot hide).
type Encoder struct {
	mu     sync.Mutex
	Events [][]byte
	FailAt int // fail the FailAt-th Encode (1-based); 0 = never
	// Persistent: every Encode from the FailAt-th on fails (a broken output), not only that one
	Persistent bool
	n          int
	// Point, when set, is called around every Encode (a scheduling point for
	// controlled-schedule runs).
	Point func() func()
}

var ErrInjected = fmt.Errorf("verif: injected encoder failure")

func (e *Encoder) Encode(v any) error {
	if e.Point != nil {
		defer e.Point()()
	}
	e.mu.Lock()
	defer e.mu.Unlock()
	e.n++
	if e.FailAt != 0 && (e.n == e.FailAt || (e.Persistent && e.n > e.FailAt)) {
		return ErrInjected
	}
	b, err := json.Marshal(v)
	if err != nil {
		return err
	}
	e.Events = append(e.Events, b)
	return nil
}

// Failed reports whether the injected failure has happened.
func (e *Encoder) Failed() bool {
	e.mu.Lock()
	defer e.mu.Unlock()
	return e.FailAt != 0 && e.n >= e.FailAt
}

func (e *Encoder) Take() [][]byte {
	e.mu.Lock()
	defer e.mu.Unlock()
	ev := e.Events
	e.Events = nil
	return ev
}

// Tracker is what the harness needs of *sessionTracker.
type Tracker interface {
	RemoteLogin(common.RemoteUserLogin) error
	AuditdEvent(*aucoalesce.Event) error
	DeleteUsersWithoutLoginsBefore(time.Time)
	DeleteRemoteUserLoginsBefore(time.Time)
	VerifSnapshot() sessiontracker.VerifState
}

// World concretises one history: model names -> concrete values.
type World struct {
	rng      *rand.Rand
	pidBase  int
	pidStep  int
	pidReal  map[int]int
	pidBack  map[int]int
	sessName map[string]string // model -> real
	sessBack map[string]string // real -> model
	salt     string

	Enc *Encoder
	T   Tracker

	bounds   []time.Time // bounds[k] = instant separating model time k-1 and k; bounds[0] = start
	now      int
	logins   map[int]*loginRec
	pidLast  map[int]int    // model pid -> whose identity its latest login carried
	ipOf     map[int]string // login id -> address
	events   map[int]*aucoalesce.Event
	last     time.Time
	tsTag    map[int64]int // L2/L3: kernel time stamp of a record group -> tag
	tsBase   time.Time
	otherTys []auparse.AuditMessageType
}

type loginRec struct {
	rul    common.RemoteUserLogin
	frozen []byte // JSON of the identity at creation
}

var otherTypes = []auparse.AuditMessageType{
	auparse.AUDIT_SYSCALL, auparse.AUDIT_USER_START, auparse.AUDIT_USER_END, auparse.AUDIT_USER_ACCT,
	auparse.AUDIT_CRED_ACQ, auparse.AUDIT_USER_LOGIN, auparse.AUDIT_EXECVE, auparse.AUDIT_PATH,
	auparse.AUDIT_USER_CMD, auparse.AUDIT_CRED_REFR, auparse.AUDIT_USER_AUTH, auparse.AUDIT_USER_ERR,
}

func NewWorld(seed int64) *World {
	w := &World{rng: rand.New(rand.NewSource(seed))}
	w.pidBase = 2 + w.rng.Intn(30000)
	w.pidStep = 1 + w.rng.Intn(97)
	w.pidReal, w.pidBack = map[int]int{}, map[int]int{}
	w.salt = strconv.Itoa(w.rng.Intn(1 << 20))
	w.sessName = map[string]string{"": "", "unset": "unset"}
	w.sessBack = map[string]string{"": "", "unset": "unset"}
	w.logins = map[int]*loginRec{}
	w.pidLast = map[int]int{}
	w.ipOf = map[int]string{}
	w.events = map[int]*aucoalesce.Event{}
	w.tsBase = time.Date(2023, 3, 1, 12, 0, 0, 0, time.UTC).Add(time.Duration(w.rng.Intn(1e6)) * time.Second)
	w.Enc = &Encoder{}
	w.T = sessiontracker.NewSessionTracker(auditevent.NewAuditEventWriter(w.Enc), nil)
	w.bounds = []time.Time{w.advance()}
	return w
}

// advance returns an instant strictly after everything stamped so far and
// makes sure everything stamped later is strictly after it.
func (w *World) advance() time.Time {
	t := time.Now()
	for !t.After(w.last) {
		t = time.Now()
	}
	w.last = t
	for {
		u := time.Now()
		if u.After(t) {
			w.last = u
			break
		}
	}
	return t
}

func (w *World) stamp() time.Time {
	t := time.Now()
	for !t.After(w.last) {
		t = time.Now()
	}
	w.last = t
	return t
}

// RealPid maps a model pid to a concrete one.  The concrete pids of one world
// come from several regimes (small, around 2^15/2^16, up to pid_max = 4194304)
// and deliberately include pairs where one decimal numeral is a prefix of the
// other (1234 / 12345), so that truncating or string-comparing code shows.
func (w *World) RealPid(p int) int {
	if p <= 0 {
		return p
	}
	if r, ok := w.pidReal[p]; ok {
		return r
	}
	for {
		var r int
		switch (w.pidStep + p) % 5 {
		case 0:
			r = 2 + w.rng.Intn(300)
		case 1:
			r = 32760 + w.rng.Intn(40)
		case 2:
			r = 65530 + w.rng.Intn(40)
		case 3:
			r = 4194304 - w.rng.Intn(1000)
		default:
			// a decimal extension of a pid already in use, if any
			r = w.pidBase + p*w.pidStep
			for mp := 1; mp < 64; mp++ { // deterministic order (not map order): the same seed gives the same world
				if q, ok := w.pidReal[mp]; ok && q < 400000 {
					r = q*10 + w.rng.Intn(10)
					break
				}
			}
		}
		if _, used := w.pidBack[r]; !used && r > 0 {
			w.pidReal[p], w.pidBack[r] = r, p
			return r
		}
	}
}

func (w *World) ModelPid(rp int) int {
	if p, ok := w.pidBack[rp]; ok {
		return p
	}
	return -rp - 1000000 // unknown pid: some value outside the model
}

func (w *World) RealSess(s string) string {
	if r, ok := w.sessName[s]; ok {
		return r
	}
	for {
		r := strconv.Itoa(1 + w.rng.Intn(4000000))
		switch w.rng.Intn(6) {
		case 0: // edge values of the kernel's 32-bit session counter
			r = []string{"0", "1", "4294967294", "2147483648", "65536"}[w.rng.Intn(5)]
		case 1: // a decimal extension of a session id already in use
			for _, m := range w.sortedSess() {
				q := w.sessName[m]
				if len(q) > 0 && len(q) < 9 && q != "unset" {
					r = q + strconv.Itoa(w.rng.Intn(10))
					break
				}
			}
		}
		if _, used := w.sessBack[r]; !used {
			w.sessName[s] = r
			w.sessBack[r] = s
			return r
		}
	}
}

// someOtherSess returns the real id of a session other than s that the history has used so far, or "unset".
func (w *World) someOtherSess(s string, tag int) string {
	if tag%3 != 0 {
		return "4294967295"
	}
	for _, m := range w.sortedSess() {
		if m != s && m != "" && m != "unset" {
			return w.sessName[m]
		}
	}
	return "4294967295"
}

func (w *World) sortedSess() []string {
	ks := make([]string, 0, len(w.sessName))
	for m := range w.sessName {
		ks = append(ks, m)
	}
	sort.Strings(ks)
	return ks
}

func (w *World) ModelSess(r string) string {
	if s, ok := w.sessBack[r]; ok {
		return s
	}
	return "?" + r
}

// ModelTime maps a real instant to the model clock.
func (w *World) ModelTime(t time.Time) int {
	k := 0
	for i := 1; i < len(w.bounds); i++ {
		if !t.Before(w.bounds[i]) {
			k = i
		}
	}
	return k
}

func (w *World) Tick() {
	w.bounds = append(w.bounds, w.advance())
	w.now++
}

// Bound returns the cut-off instant for model cut-off c (everything stamped
// at model time < c is before it, everything stamped at time >= c after it).
func (w *World) Bound(c int) time.Time {
	for c >= len(w.bounds) {
		w.Tick()
	}
	return w.bounds[c]
}

func (w *World) MakeLogin(id, p int) common.RemoteUserLogin {
	return w.makeLogin(id, p, true)
}

func (w *World) makeLogin(id, p int, register bool) common.RemoteUserLogin {
	// "the same person reconnects": every other login of a pid that was used before carries the user, the credential
	// and the address of that pid's previous login (a new connection: another port) - the two identities differ in the
	// port only.  Deterministic in (seed, id).
	who := id
	if prev, ok := w.pidLast[p]; ok && register && (id+w.pidStep)%2 == 0 {
		who = prev
	}
	ip, ok := w.ipOf[who]
	if !ok {
		ip = fmt.Sprintf("10.%d.%d.%d", who/250, who%250, w.rng.Intn(250))
		w.ipOf[who] = ip
	}
	if register {
		w.pidLast[p] = who
	}
	cred := fmt.Sprintf("cred-%d-%s", who, w.salt)
	if who%2 == 1 {
		// password / plain public key: sshd names no certificate identity, the login is "anonymous"
		cred = common.UnknownUser
	}
	evt := auditevent.NewAuditEvent(
		common.ActionLoginIdentifier,
		auditevent.EventSource{Type: "IP", Value: ip,
			Extra: map[string]any{"port": strconv.Itoa(1024 + id)}},
		auditevent.OutcomeSucceeded,
		map[string]string{"loggedAs": fmt.Sprintf("user%d", who), "userID": cred, "pid": strconv.Itoa(w.RealPid(p))},
		"sshd",
	).WithTarget(map[string]string{"host": "node-" + w.salt, "machine-id": "mid-" + w.salt})
	evt.LoggedAt = w.stamp()
	rul := common.RemoteUserLogin{Source: evt, PID: w.RealPid(p), CredUserID: cred}
	if register {
		fr, _ := json.Marshal(identityOf(evt))
		w.logins[id] = &loginRec{rul: rul, frozen: fr}
	}
	return rul
}

type identity struct {
	Subjects map[string]string      `json:"subjects"`
	Source   auditevent.EventSource `json:"source"`
	Target   map[string]string      `json:"target"`
}

func identityOf(e *auditevent.AuditEvent) identity {
	return identity{Subjects: e.Subjects, Source: e.Source, Target: e.Target}
}

func (w *World) MakeEvent(c Call) *aucoalesce.Event {
	ev := &aucoalesce.Event{
		// time stamps and sequence numbers are NOT monotonic in processing order
		// (the reassembler completes compound events late); distinct per tag
		Timestamp: w.tsBase.Add(time.Duration((c.Tag*60013+w.pidStep*131)%100003) * 1234567 * time.Microsecond),
		Sequence:  uint32(1000 + (c.Tag*104729+w.pidStep)%1000003),
		Session:   w.RealSess(c.Sess),
		Result:    c.Res,
		Summary: aucoalesce.Summary{
			Actor:  aucoalesce.Actor{Primary: "actor", Secondary: "actor2"},
			Action: fmt.Sprintf("act-%d", c.Tag),
			How:    fmt.Sprintf("/usr/bin/how-%d", c.Tag),
			Object: aucoalesce.Object{Type: "file", Primary: fmt.Sprintf("obj-%d", c.Tag), Secondary: w.salt},
		},
	}
	switch c.Typ {
	case "LOGIN":
		ev.Type = auparse.AUDIT_LOGIN
	case "CRED_DISP":
		ev.Type = auparse.AUDIT_CRED_DISP
	default:
		ev.Type = otherTypes[(c.Tag+w.pidStep)%len(otherTypes)]
	}
	if c.Typ == "LOGIN" {
		if c.Pid == 0 {
			ev.Process.PID = []string{"", "abc", "12x", "0x10", " 7"}[c.Tag%5]
		} else {
			ev.Process.PID = strconv.Itoa(w.RealPid(c.Pid))
		}
	} else {
		// the pid field of other records is irrelevant to correlation; use
		// something plausible, sometimes a pid that other logins use
		ev.Process.PID = strconv.Itoa(w.RealPid(1 + c.Tag%3))
	}
	if c.Args {
		ev.Process.Args = []string{"cmd", fmt.Sprintf("arg-%d", c.Tag)}
	}
	// free-form record data the correlator must not take identity decisions from: the previous session of the
	// process (usually unset, sometimes another live session), the old login uid
	ev.Data = map[string]string{"old-ses": w.someOtherSess(c.Sess, c.Tag), "old-auid": "4294967295", "tty": "(none)"}
	w.events[c.Tag] = ev
	return ev
}

// Project decodes emitted events into the model vocabulary.
func (w *World) Project(raw [][]byte) []Out {
	outs := make([]Out, 0, len(raw))
	for _, b := range raw {
		outs = append(outs, w.projectOne(b))
	}
	return outs
}

func (w *World) projectOne(b []byte) Out {
	var e auditevent.AuditEvent
	o := Out{Tag: -1, ID: -1}
	if err := json.Unmarshal(b, &e); err != nil {
		o.Sess = "?undecodable"
		return o
	}
	o.Sess = w.ModelSess(e.Metadata.AuditID)
	o.Oc = e.Outcome
	if a, ok := e.Metadata.Extra["action"].(string); ok && strings.HasPrefix(a, "act-") {
		if n, err := strconv.Atoi(a[4:]); err == nil {
			o.Tag = n
		}
	}
	if o.Tag < 0 && w.tsTag != nil {
		if t, ok := w.tsTag[e.LoggedAt.UnixNano()]; ok {
			o.Tag = t
		}
	}
	_, o.Args = e.Metadata.Extra["process_args"]
	// identity: the login whose identity content equals the event's, exactly
	got, _ := json.Marshal(identityOf(&e))
	for id, l := range w.logins {
		if string(l.frozen) == string(got) {
			o.ID = id
		}
	}
	if src, ok := w.events[o.Tag]; ok {
		wf := e.Type == "UserAction" && e.Component == "auditd" && e.LoggedAt.Equal(src.Timestamp)
		wf = wf && e.Metadata.Extra["how"] == src.Summary.How && e.Metadata.Extra["action"] == src.Summary.Action
		obj, _ := json.Marshal(e.Metadata.Extra["object"])
		want, _ := json.Marshal(src.Summary.Object)
		var oa, ob any
		_ = json.Unmarshal(obj, &oa)
		_ = json.Unmarshal(want, &ob)
		wf = wf && reflect.DeepEqual(oa, ob)
		if o.Args {
			ga, _ := json.Marshal(e.Metadata.Extra["process_args"])
			wa, _ := json.Marshal(src.Process.Args)
			wf = wf && string(ga) == string(wa)
		}
		o.Wf = wf
	}
	return o
}

// Snapshot projects the tracker's stored state.
func (w *World) Snapshot() *StProj {
	vs := w.T.VerifSnapshot()
	st := &StProj{Sess: []SessProj{}, Wait: []WaitProj{}}
	for _, s := range vs.Sessions {
		sp := SessProj{S: w.ModelSess(s.ID), Pid: w.ModelPid(s.SrcPID), Bound: s.HasRUL, Held: []int{},
			At: w.ModelTime(s.Added)}
		if s.HasRUL {
			sp.ID = w.loginID(s.Login)
		}
		for _, ev := range s.Cached {
			sp.Held = append(sp.Held, w.eventTag(ev))
		}
		st.Sess = append(st.Sess, sp)
	}
	for _, l := range vs.Logins {
		at := -1
		if l.Source != nil {
			at = w.ModelTime(l.Source.LoggedAt)
		}
		st.Wait = append(st.Wait, WaitProj{Pid: w.ModelPid(l.PID), ID: w.loginID(l), At: at})
	}
	return st
}

func (w *World) loginID(l common.RemoteUserLogin) int {
	for id, r := range w.logins {
		if r.rul.Source == l.Source && r.rul.PID == l.PID && r.rul.CredUserID == l.CredUserID {
			return id
		}
	}
	return -1
}

func (w *World) eventTag(ev *aucoalesce.Event) int {
	for t, e := range w.events {
		if e == ev {
			return t
		}
	}
	return -1
}

// Mutated reports whether any login handed to the tracker no longer has the
// identity content it had when it was created.
func (w *World) Mutated() bool {
	for _, l := range w.logins {
		now, _ := json.Marshal(identityOf(l.rul.Source))
		if string(now) != string(l.frozen) {
			return true
		}
	}
	return false
}

// Apply performs one abstract call on the real tracker.
func (w *World) Apply(c Call) (err error) {
	switch c.K {
	case "login":
		err = w.T.RemoteLogin(w.MakeLogin(c.ID, c.Pid))
	case "badlogin":
		l := w.makeLogin(900000+c.Tag, 1, false)
		switch c.Bad {
		case "pid0":
			l.PID = 0
		case "pidneg":
			l.PID = -5
		case "nocred":
			l.CredUserID = ""
		default:
			l.Source = nil
		}
		err = w.T.RemoteLogin(l)
	case "audit":
		err = w.T.AuditdEvent(w.MakeEvent(c))
		w.last = time.Now()
	case "cleanS":
		w.T.DeleteUsersWithoutLoginsBefore(w.Bound(c.C))
	case "cleanL":
		w.T.DeleteRemoteUserLoginsBefore(w.Bound(c.C))
	case "tick":
		w.Tick()
	default:
		return fmt.Errorf("unknown call kind %q", c.K)
	}
	return err
}

// Replay runs one history on a fresh tracker and returns its trace.
func Replay(hist []Call, seed int64, withState bool) (recs []Rec, panicked any) {
	w := NewWorld(seed)
	recs = make([]Rec, 0, len(hist))
	type res struct {
		err error
		p   any
	}
	for _, c := range hist {
		// every call has a watchdog: a call that does not return (a lock taken twice, a wait for ever) is reported
		// like a panic instead of hanging the driver
		ch := make(chan res, 1)
		c := c
		go func() {
			var r res
			defer func() {
				if x := recover(); x != nil {
					r.p = x
				}
				ch <- r
			}()
			r.err = w.Apply(c)
		}()
		var err error
		select {
		case r := <-ch:
			if r.p != nil {
				return recs, r.p
			}
			err = r.err
		case <-time.After(replayPatience()):
			replayHangs.Add(1)
			return recs, fmt.Sprintf("hang: the %s call did not return", c.K)
		}
		r := Rec{Call: c, Outs: w.Project(w.Enc.Take()), Err: err != nil, Mut: w.Mutated()}
		if err != nil {
			r.ErrS = err.Error()
		}
		if withState {
			r.St = w.Snapshot()
		}
		recs = append(recs, r)
	}
	return recs, nil
}

var replayHangs atomic.Int64

func replayPatience() time.Duration {
	if replayHangs.Load() > 6 {
		return 100 * time.Millisecond
	}
	return 3 * time.Second
}

// Prepare builds the concrete arguments of a call now and returns the closure
// that performs it later (for concurrent programs: nothing of the World is
// written while threads run).
func (w *World) Prepare(c Call) func() error {
	switch c.K {
	case "login":
		l := w.MakeLogin(c.ID, c.Pid)
		return func() error { return w.T.RemoteLogin(l) }
	case "audit":
		ev := w.MakeEvent(c)
		return func() error { return w.T.AuditdEvent(ev) }
	case "cleanS":
		far := time.Now().Add(time.Hour)
		return func() error { w.T.DeleteUsersWithoutLoginsBefore(far); return nil }
	case "cleanL":
		far := time.Now().Add(time.Hour)
		return func() error { w.T.DeleteRemoteUserLoginsBefore(far); return nil }
	}
	return func() error { return fmt.Errorf("unknown call kind %q", c.K) }
}

// ProjectL3 projects one UserAction line of the daemon's output file (L3): the
// tag is recovered from the kernel time stamp, identity is resolved by the caller.
func (w *World) ProjectL3(line []byte, tsTag map[int64]int) Out {
	w.tsTag = tsTag
	o := w.projectOne(line)
	if _, ok := w.events[o.Tag]; !ok {
		o.Wf = true // rendering is checked at L1/L2 against the reference; not at L3
	}
	return o
}
