package l1

import (
	"context"
	"fmt"
	"math/rand"
	"strconv"
	"strings"
	"sync"
	"sync/atomic"
	"time"

	"github.com/metal-toolbox/auditevent"
	"go.uber.org/zap"

	"github.com/metal-toolbox/audito-maldito/internal/common"
	"github.com/metal-toolbox/audito-maldito/internal/health"
	"github.com/metal-toolbox/audito-maldito/processors/auditd"
	"github.com/metal-toolbox/audito-maldito/verifharness/auditgen"
)

// L2 drives the real Auditd.Read (real auparse, reassembler, aucoalesce,
// reassembler call-back, session tracker) with audit LOG LINES and logins.
// Determinism without sleeps: Audits is unbuffered and an empty string (which
// parseAuditLogs skips) is sent after each record group as a barrier; a login
// is complete when the tracker-mutex hook reports the end of RemoteLogin.
type L2 struct {
	W            *World
	Gen          *auditgen.Gen
	audits       chan string
	logins       chan common.RemoteUserLogin
	cancel       context.CancelFunc
	done         chan error
	loginOK      chan struct{}
	loginIn      chan struct{}
	expectReturn bool
	quiesced     bool
	RetErr       error
	Retd         bool
	tsTag        map[int64]int
	Lines        map[int][]string
}

var (
	l2mu      sync.Mutex
	l2current *L2
)

func init() {
	auditd.SetLogger(zap.NewNop().Sugar())
}

// InstallL2Hook makes the end of sessionTracker.RemoteLogin observable.
func InstallL2Hook() {
	common.VerifSchedHook = func(obj any, op, phase string) {
		if op == "RemoteLogin" {
			l2mu.Lock()
			c := l2current
			l2mu.Unlock()
			if c != nil {
				ch := c.loginOK
				if phase == "before" {
					ch = c.loginIn
				}
				select {
				case ch <- struct{}{}:
				default:
				}
			}
		}
	}
}

func NewL2(seed int64, failAt int) *L2 { return NewL2Buf(seed, failAt, 0, true) }

// NewL2Buf: Audits channel of the given capacity; start=false lets the caller
// pre-load the channel (a backlog) before Read is started with Start().
func NewL2Buf(seed int64, failAt, capacity int, start bool) *L2 {
	w := NewWorld(seed)
	w.Enc.FailAt = failAt
	l := &L2{W: w, Gen: auditgen.New(rand.New(rand.NewSource(seed ^ 0x5eed))), audits: make(chan string, capacity),
		logins: make(chan common.RemoteUserLogin), done: make(chan error, 1), loginOK: make(chan struct{}, 4),
		loginIn: make(chan struct{}, 4), tsTag: map[int64]int{}, Lines: map[int][]string{}}
	l2mu.Lock()
	l2current = l
	l2mu.Unlock()
	if start {
		l.Start()
	}
	return l
}

// Start launches Auditd.Read.
func (l *L2) Start() {
	ctx, cancel := context.WithCancel(context.Background())
	l.cancel = cancel
	a := auditd.Auditd{Audits: l.audits, Logins: l.logins, EventW: auditevent.NewAuditEventWriter(l.W.Enc), Health: health.NewHealth()}
	go func() {
		// a panic inside Read (its own goroutine) is an observation about the code under test
		defer func() {
			if r := recover(); r != nil {
				l.done <- fmt.Errorf("panic: %v", r)
			}
		}()
		l.done <- a.Read(ctx)
	}()
}

// Preload puts a line into the (buffered) Audits channel without waiting for Read.
func (l *L2) Preload(s string) bool {
	select {
	case l.audits <- s:
		return true
	default:
		return false
	}
}

// Drained reports whether the Audits channel is empty.
func (l *L2) Drained() bool { return len(l.audits) == 0 }

// WaitReturn waits for Read to return.
func (l *L2) WaitReturn(d time.Duration) bool {
	if l.Retd {
		return true
	}
	select {
	case err := <-l.done:
		l.returned(err)
		l.cancel()
		return true
	case <-time.After(d):
		noReturns++
		return false
	}
}

// LoginEntered is signalled when Read has entered sessionTracker.RemoteLogin
// (before it takes the tracker's mutex).
func (l *L2) LoginEntered() <-chan struct{} { return l.loginIn }

// LoginDone signals the end of sessionTracker.RemoteLogin (the hook at the end of the method).
func (l *L2) LoginDone() <-chan struct{} { return l.loginOK }

// SendLoginAsync hands a valid login to Read without waiting for RemoteLogin to finish.
func (l *L2) SendLoginAsync(id, pid int) bool {
	rul := l.W.MakeLogin(id, pid)
	d := 5 * time.Second
	if sendTimeouts.Load() > 4 {
		d = 100 * time.Millisecond // Read does not take logins (any more): established, do not spend hours on it
	}
	select {
	case l.logins <- rul:
		return true
	case <-time.After(d):
		sendTimeouts.Add(1)
		return false
	}
}

var sendTimeouts atomic.Int64

// Patience: waits that only run out when the code under test hangs. Once that has happened a number of times the
// behaviour is established and the remaining scenarios use a short wait (a broken tree must not take hours).
var expiries atomic.Int64

func Patience(d time.Duration) time.Duration {
	if expiries.Load() > 6 && d > 100*time.Millisecond {
		return 100 * time.Millisecond
	}
	return d
}

func Expired() { expiries.Add(1) }

func (l *L2) Close() {
	if l.cancel == nil {
		return
	}
	l.cancel()
	if !l.Retd {
		select {
		case <-l.done:
		case <-time.After(Patience(2 * time.Second)):
			Expired()
		}
	}
	l2mu.Lock()
	if l2current == l {
		l2current = nil
	}
	l2mu.Unlock()
}

// send delivers to Read unless Read has returned.
func (l *L2) sendLine(s string) bool {
	if l.Retd {
		return false
	}
	select {
	case l.audits <- s:
		return true
	case err := <-l.done:
		l.returned(err)
		return false
	case <-time.After(Patience(5 * time.Second)):
		Expired()
		return false
	}
}

// quiesce: Read has returned, but the parser goroutine may still be inside the PushMessage that produced the error
// (handing over the remaining groups of the same clean-up).  Before the output is looked at - and before the shared
// context is cancelled, which would let the parser leave through ctx.Done instead - give it the empty line: it takes
// it only when it is back in its loop.  Bounded: a parser that is stuck shows in the observation, not here.
var quiesceTimeouts, loginTimeouts, takeTimeouts atomic.Int64

func takePatience() time.Duration {
	if takeTimeouts.Load() > 4 {
		return 200 * time.Millisecond
	}
	return 5 * time.Second
}

func loginPatience() time.Duration {
	if loginTimeouts.Load() > 4 {
		return 50 * time.Millisecond
	}
	return 2 * time.Second
}

func (l *L2) returned(err error) {
	l.RetErr, l.Retd = err, true
	l.quiesce()
}

func (l *L2) quiesce() {
	if l.quiesced {
		return
	}
	l.quiesced = true
	if l.RetErr != nil && strings.Contains(l.RetErr.Error(), "audit log parser exited") {
		return // the parser goroutine itself returned the error: nothing is in flight
	}
	wait := 300 * time.Millisecond
	if quiesceTimeouts.Load() > 8 {
		wait = 10 * time.Millisecond
	}
	select {
	case l.audits <- "":
	case <-time.After(wait):
		quiesceTimeouts.Add(1)
		return
	}
	dl := time.Now().Add(wait)
	for cap(l.audits) > 0 && len(l.audits) > 0 {
		if !time.Now().Before(dl) {
			quiesceTimeouts.Add(1) // nobody takes lines any more (no parser left behind): established after a few times
			return
		}
		time.Sleep(50 * time.Microsecond)
	}
}

// settle waits until a pending return of Read (if any) is visible.
func (l *L2) settle() {
	if l.Retd {
		return
	}
	// after an injected fault Read is expected to return: wait for it (a swallowed error shows as "no return")
	d := 2 * time.Millisecond
	if l.W.Enc.Failed() || l.expectReturn {
		d = faultWait()
	}
	select {
	case err := <-l.done:
		l.returned(err)
		l.cancel() // the errgroup cancels the shared context when a worker returns
	case <-time.After(d):
		if d > 2*time.Millisecond {
			noReturns++
		}
	}
}

// noReturns counts injected faults after which Read did not return; once that has been seen a few times the
// (generous) wait is shortened: the behaviour is established and the run should not take hours.
var noReturns int

// FaultWait is how long to wait for Read to return after an injected fault.
func FaultWait() time.Duration { return faultWait() }

func faultWait() time.Duration {
	if noReturns > 40 {
		return 15 * time.Millisecond
	}
	if noReturns > 8 {
		return 120 * time.Millisecond
	}
	return 1500 * time.Millisecond
}

// ExpectReturn tells the driver that the step just performed injected a fault.
func (l *L2) ExpectReturn() { l.expectReturn = true }

// Lines of an abstract audit call.
func (l *L2) Render(c Call) auditgen.Group {
	pid := strconv.Itoa(l.W.RealPid(c.Pid))
	if c.Typ == "LOGIN" && c.Pid == 0 {
		pid = []string{"abc", "12x", "0x10", "-"}[c.Tag%4]
	}
	g := l.Gen.Lines(auditgen.Event{Tag: c.Tag, Sess: l.W.RealSess(c.Sess), Typ: c.Typ, Pid: pid, Res: c.Res, Args: c.Args,
		OldSes: l.W.someOtherSess(c.Sess, c.Tag)})
	l.tsTag[g.TS.UnixNano()] = c.Tag
	l.W.tsTag = l.tsTag
	if ref, err := auditgen.Reference(g.Lines); err == nil {
		l.W.events[c.Tag] = ref
	}
	l.Lines[c.Tag] = g.Lines
	return g
}

// Apply performs one abstract call through Read. ok=false: Read has returned.
func (l *L2) Apply(c Call) (ok bool, err error) {
	switch c.K {
	case "audit":
		g := l.Render(c)
		for _, ln := range g.Lines {
			if !l.sendLine(ln) {
				return false, nil
			}
		}
		if !l.Barrier() { // the group has been parsed, reassembled and handed to the tracker
			return false, nil
		}
		// a call-back error travels to Read's select loop asynchronously
		if c.Typ == "LOGIN" && c.Pid == 0 {
			l.expectReturn = true
		}
		if l.W.Enc.FailAt != 0 || (c.Typ == "LOGIN" && c.Pid == 0) {
			l.settle()
		}
		return !l.Retd, nil
	case "login", "badlogin":
		var rul common.RemoteUserLogin
		if c.K == "login" {
			rul = l.W.MakeLogin(c.ID, c.Pid)
		} else {
			rul = l.W.makeLogin(900000+c.Tag, 1, false)
			switch c.Bad {
			case "pid0":
				rul.PID = 0
			case "pidneg":
				rul.PID = -5
			case "nocred":
				rul.CredUserID = ""
			default:
				rul.Source = nil
			}
		}
		for len(l.loginOK) > 0 {
			<-l.loginOK
		}
		if l.Retd {
			return false, nil
		}
		select {
		case l.logins <- rul:
		case err := <-l.done:
			l.returned(err)
			return false, nil
		case <-time.After(takePatience()):
			takeTimeouts.Add(1)
			return false, fmt.Errorf("hang: Read did not take the login (it is stuck in an earlier call)")
		}
		select {
		case <-l.loginOK:
		case err := <-l.done:
			l.returned(err)
			return false, nil
		case <-time.After(loginPatience()):
			// Read took the login but the correlator was never seen finishing RemoteLogin: what that means shows in
			// the events that follow (nothing is judged here)
			loginTimeouts.Add(1)
		}
		if c.K == "badlogin" {
			l.expectReturn = true
		}
		if c.K == "badlogin" || l.W.Enc.FailAt != 0 {
			l.settle()
		}
		return !l.Retd, nil
	case "tick", "cleanS", "cleanL":
		return true, fmt.Errorf("call kind %q cannot be driven through Auditd.Read", c.K)
	}
	return true, fmt.Errorf("unknown call kind %q", c.K)
}

// RefAttrs returns the audit result and "has process arguments" of the record
// group of tag as aucoalesce renders them.
func (l *L2) RefAttrs(tag int) (res string, args bool, ok bool) {
	ev, have := l.W.events[tag]
	if !have {
		return "", false, false
	}
	return ev.Result, len(ev.Process.Args) > 0, true
}

// SendRaw sends one raw line to Read's Audits channel.
func (l *L2) SendRaw(s string) bool { return l.sendLine(s) }

// Barrier returns once the parse goroutine has finished everything sent before.
func (l *L2) Barrier() bool {
	if !l.sendLine("") {
		return false
	}
	if cap(l.audits) > 0 {
		// buffered: the parser has finished everything before the empty line once it has TAKEN the empty line
		dl := time.Now().Add(5 * time.Second)
		for len(l.audits) > 0 {
			if time.Now().After(dl) {
				return false
			}
			select {
			case err := <-l.done:
				l.returned(err)
				return false
			default:
			}
			time.Sleep(50 * time.Microsecond)
		}
	}
	return true
}

// Settle waits briefly for a pending return of Read to become visible.
func (l *L2) Settle() { l.settle() }
