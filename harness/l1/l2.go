package l1

import (
	"context"
	"fmt"
	"math/rand"
	"strconv"
	"sync"
	"time"

	"github.com/metal-toolbox/auditevent"
	"go.uber.org/zap"

	"github.com/metal-toolbox/audito-maldito/internal/common"
	"github.com/metal-toolbox/audito-maldito/internal/health"
	"github.com/metal-toolbox/audito-maldito/processors/auditd"
	"github.com/metal-toolbox/audito-maldito/verifharness/auditgen"
)

// L2 drives the real Auditd.Read (real auparse, reassembler, aucoalesce,
// reassembler call-back, session tracker) with audit LOG LINES and logins.
// Determinism without sleeps: Audits is unbuffered and an empty string (which
// parseAuditLogs skips) is sent after each record group as a barrier; a login
// is complete when the tracker-mutex hook reports the end of RemoteLogin.
type L2 struct {
	W       *World
	Gen     *auditgen.Gen
	audits  chan string
	logins  chan common.RemoteUserLogin
	cancel  context.CancelFunc
	done    chan error
	loginOK chan struct{}
	RetErr  error
	Retd    bool
	tsTag   map[int64]int
	Lines   map[int][]string
}

var (
	l2mu      sync.Mutex
	l2current *L2
)

func init() {
	auditd.SetLogger(zap.NewNop().Sugar())
}

// InstallL2Hook makes the end of sessionTracker.RemoteLogin observable.
func InstallL2Hook() {
	common.VerifSchedHook = func(obj any, op, phase string) {
		if op == "RemoteLogin" && phase == "after" {
			l2mu.Lock()
			c := l2current
			l2mu.Unlock()
			if c != nil {
				select {
				case c.loginOK <- struct{}{}:
				default:
				}
			}
		}
	}
}

func NewL2(seed int64, failAt int) *L2 {
	w := NewWorld(seed)
	w.Enc.FailAt = failAt
	l := &L2{W: w, Gen: auditgen.New(rand.New(rand.NewSource(seed ^ 0x5eed))), audits: make(chan string),
		logins: make(chan common.RemoteUserLogin), done: make(chan error, 1), loginOK: make(chan struct{}, 4),
		tsTag: map[int64]int{}, Lines: map[int][]string{}}
	ctx, cancel := context.WithCancel(context.Background())
	l.cancel = cancel
	a := auditd.Auditd{Audits: l.audits, Logins: l.logins, EventW: auditevent.NewAuditEventWriter(w.Enc), Health: health.NewHealth()}
	l2mu.Lock()
	l2current = l
	l2mu.Unlock()
	go func() { l.done <- a.Read(ctx) }()
	return l
}

func (l *L2) Close() {
	l.cancel()
	if !l.Retd {
		select {
		case <-l.done:
		case <-time.After(2 * time.Second):
		}
	}
	l2mu.Lock()
	if l2current == l {
		l2current = nil
	}
	l2mu.Unlock()
}

// send delivers to Read unless Read has returned.
func (l *L2) sendLine(s string) bool {
	if l.Retd {
		return false
	}
	select {
	case l.audits <- s:
		return true
	case err := <-l.done:
		l.RetErr, l.Retd = err, true
		return false
	case <-time.After(5 * time.Second):
		return false
	}
}

// settle waits until a pending return of Read (if any) is visible.
func (l *L2) settle() {
	if l.Retd {
		return
	}
	select {
	case err := <-l.done:
		l.RetErr, l.Retd = err, true
	case <-time.After(2 * time.Millisecond):
	}
}

// Lines of an abstract audit call.
func (l *L2) Render(c Call) auditgen.Group {
	pid := strconv.Itoa(l.W.RealPid(c.Pid))
	if c.Typ == "LOGIN" && c.Pid == 0 {
		pid = []string{"abc", "12x", "0x10", "-"}[c.Tag%4]
	}
	g := l.Gen.Lines(auditgen.Event{Tag: c.Tag, Sess: l.W.RealSess(c.Sess), Typ: c.Typ, Pid: pid, Res: c.Res, Args: c.Args})
	l.tsTag[g.TS.UnixNano()] = c.Tag
	l.W.tsTag = l.tsTag
	if ref, err := auditgen.Reference(g.Lines); err == nil {
		l.W.events[c.Tag] = ref
	}
	l.Lines[c.Tag] = g.Lines
	return g
}

// Apply performs one abstract call through Read. ok=false: Read has returned.
func (l *L2) Apply(c Call) (ok bool, err error) {
	switch c.K {
	case "audit":
		g := l.Render(c)
		for _, ln := range g.Lines {
			if !l.sendLine(ln) {
				return false, nil
			}
		}
		if !l.sendLine("") { // barrier: the group has been parsed, reassembled and handed to the tracker
			return false, nil
		}
		// a call-back error travels to Read's select loop asynchronously
		if l.W.Enc.FailAt != 0 || (c.Typ == "LOGIN" && c.Pid == 0) {
			l.settle()
		}
		return !l.Retd, nil
	case "login", "badlogin":
		var rul common.RemoteUserLogin
		if c.K == "login" {
			rul = l.W.MakeLogin(c.ID, c.Pid)
		} else {
			rul = l.W.makeLogin(900000+c.Tag, 1, false)
			switch c.Bad {
			case "pid0":
				rul.PID = 0
			case "pidneg":
				rul.PID = -5
			case "nocred":
				rul.CredUserID = ""
			default:
				rul.Source = nil
			}
		}
		for len(l.loginOK) > 0 {
			<-l.loginOK
		}
		if l.Retd {
			return false, nil
		}
		select {
		case l.logins <- rul:
		case err := <-l.done:
			l.RetErr, l.Retd = err, true
			return false, nil
		case <-time.After(5 * time.Second):
			return false, fmt.Errorf("Read did not take the login within 5 s")
		}
		select {
		case <-l.loginOK:
		case err := <-l.done:
			l.RetErr, l.Retd = err, true
			return false, nil
		case <-time.After(5 * time.Second):
			return false, fmt.Errorf("RemoteLogin did not finish within 5 s")
		}
		if c.K == "badlogin" || l.W.Enc.FailAt != 0 {
			l.settle()
		}
		return !l.Retd, nil
	case "tick", "cleanS", "cleanL":
		return true, fmt.Errorf("call kind %q cannot be driven through Auditd.Read", c.K)
	}
	return true, fmt.Errorf("unknown call kind %q", c.K)
}

// RefAttrs returns the audit result and "has process arguments" of the record
// group of tag as aucoalesce renders them.
func (l *L2) RefAttrs(tag int) (res string, args bool, ok bool) {
	ev, have := l.W.events[tag]
	if !have {
		return "", false, false
	}
	return ev.Result, len(ev.Process.Args) > 0, true
}

// SendRaw sends one raw line to Read's Audits channel.
func (l *L2) SendRaw(s string) bool { return l.sendLine(s) }

// Barrier returns once the parse goroutine has finished everything sent before.
func (l *L2) Barrier() bool { return l.sendLine("") }

// Settle waits briefly for a pending return of Read to become visible.
func (l *L2) Settle() { l.settle() }
