module github.com/metal-toolbox/audito-maldito/verifharness

go 1.19

require (
	github.com/elastic/go-libaudit/v2 v2.3.3
	github.com/fsnotify/fsnotify v1.7.0
	github.com/metal-toolbox/auditevent v0.8.0
	github.com/metal-toolbox/audito-maldito v0.0.0
	github.com/prometheus/client_golang v1.17.0
	github.com/prometheus/client_model v0.4.1-0.20230718164431-9a2bf3000d16
	go.uber.org/zap v1.26.0
	golang.org/x/sys v0.11.0
)

require (
	github.com/beorn7/perks v1.0.1 // indirect
	github.com/cenkalti/backoff/v4 v4.2.1 // indirect
	github.com/cespare/xxhash/v2 v2.2.0 // indirect
	github.com/golang/protobuf v1.5.3 // indirect
	github.com/google/uuid v1.3.0 // indirect
	github.com/matttproud/golang_protobuf_extensions v1.0.4 // indirect
	github.com/prometheus/common v0.44.0 // indirect
	github.com/prometheus/procfs v0.11.1 // indirect
	go.uber.org/multierr v1.10.0 // indirect
	google.golang.org/protobuf v1.31.0 // indirect
	gopkg.in/yaml.v2 v2.4.0 // indirect
)

replace github.com/metal-toolbox/audito-maldito => /repo

replace github.com/elastic/go-libaudit/v2 v2.3.3 => github.com/metal-toolbox/go-libaudit/v2 v2.3.3
