// Package sshdvec runs the vectors enumerated by TLC from specs/SshdLog.tla
// through the real sshd processor (directly, framed through the syslog
// ingester, and through a real FIFO) and records what the code did.  Class
// tokens ("<acct.plain>") are replaced by seeded random values of the class in
// the line and in the expectation alike.  Verdicts are TLC's (SshdTrace.tla).
package sshdvec

import (
	"bytes"
	"context"
	"encoding/json"
	"fmt"
	"io"
	"math/rand"
	"os"
	"reflect"
	"regexp"
	"sort"
	"strconv"
	"strings"
	"sync"
	"time"

	"github.com/metal-toolbox/auditevent"
	"github.com/prometheus/client_golang/prometheus"
	dto "github.com/prometheus/client_model/go"
	"go.uber.org/zap"
	"go.uber.org/zap/zapcore"

	"github.com/metal-toolbox/audito-maldito/ingesters/namedpipe"
	"github.com/metal-toolbox/audito-maldito/ingesters/syslog"
	"github.com/metal-toolbox/audito-maldito/internal/common"
	"github.com/metal-toolbox/audito-maldito/internal/health"
	"github.com/metal-toolbox/audito-maldito/internal/metrics"
	"github.com/metal-toolbox/audito-maldito/processors/sshd"
)

const (
	NodeName  = "verif-node"
	MachineID = "verif-machine-0123456789abcdef"
)

var (
	nopLogger   = zap.NewNop().Sugar()
	debugLogger = zap.New(zapcore.NewCore(zapcore.NewJSONEncoder(zap.NewProductionEncoderConfig()),
		zapcore.AddSync(io.Discard), zap.DebugLevel)).Sugar()
)

func init() {
	sshd.SetLogger(nopLogger)
}

// SetDebug switches the sshd processor's package logger between a disabled one and one at debug level (rendered and
// thrown away): what a line yields must not depend on the daemon's --log-level.
func SetDebug(on bool) {
	if on {
		sshd.SetLogger(debugLogger)
	} else {
		sshd.SetLogger(nopLogger)
	}
}

// Vector is one TLC-enumerated vector (after JSON decoding).
type Vector struct {
	Form    string          `json:"form"`
	Line    string          `json:"line"`
	Emits   bool            `json:"emits"`
	Event   json.RawMessage `json:"event,omitempty"`
	Login   json.RawMessage `json:"login,omitempty"`
	Counter json.RawMessage `json:"counter,omitempty"`
	Fam     string          `json:"fam,omitempty"`
	PidTok  string          `json:"pidtok,omitempty"`
}

var tokRE = regexp.MustCompile(`<[a-z0-9]+\.[a-z0-9]+>`)

const b64 = "ABCDEFGHIJKLMNOPQRSTUVWXYZabcdefghijklmnopqrstuvwxyz0123456789+/"

func rs(r *rand.Rand, alphabet string, n int) string {
	a := []rune(alphabet)
	var sb strings.Builder
	for i := 0; i < n; i++ {
		sb.WriteRune(a[r.Intn(len(a))])
	}
	return sb.String()
}

func ipv4(r *rand.Rand) string {
	return fmt.Sprintf("%d.%d.%d.%d", 1+r.Intn(223), r.Intn(256), r.Intn(256), 1+r.Intn(254))
}

func ipv6(r *rand.Rand) string {
	switch r.Intn(4) {
	case 0:
		return "::1"
	case 1:
		return fmt.Sprintf("2001:db8::%x:%x", r.Intn(65536), r.Intn(65536))
	case 2:
		return fmt.Sprintf("::ffff:%s", ipv4(r))
	default:
		p := make([]string, 8)
		for i := range p {
			p[i] = fmt.Sprintf("%x", r.Intn(65536))
		}
		return strings.Join(p, ":")
	}
}

// Gen returns a value of the named class.
func Gen(r *rand.Rand, tok string) string {
	lower := "abcdefghijklmnopqrstuvwxyz"
	switch tok {
	case "<acct.plain>":
		return rs(r, lower, 1) + rs(r, lower+"0123456789", 1+r.Intn(12))
	case "<acct.special>":
		return rs(r, lower+"_", 1) + rs(r, lower+"0123456789_.@-", 2+r.Intn(10)) + []string{"", "$"}[r.Intn(2)]
	case "<acct.unicode>":
		return rs(r, lower, 1+r.Intn(3)) + rs(r, "üñ日本語🏝㱋éß", 1+r.Intn(4)) + rs(r, lower, r.Intn(3))
	case "<acct.digits>":
		return rs(r, "0123456789", 1+r.Intn(6)) + rs(r, lower, r.Intn(3))
	case "<acct.caps>":
		// mixed case, sometimes ending in a fragment of the grammar ("ID", "CA")
		return rs(r, lower, 1+r.Intn(4)) + rs(r, "ABCDEFGHIJKLMNOPQRSTUVWXYZ", 1+r.Intn(3)) + []string{"", "ID", "CA", "Id", "ID"}[r.Intn(5)]
	case "<acct.keyword>":
		// a word of the message grammar as (part of) the account name - no blanks, so still a legitimate name
		w := []string{"ID", "CA", "serial", "from", "port", "ssh2", "invalid", "user", "root", "unknown", "for", "by"}[r.Intn(12)]
		return []string{w, rs(r, lower, 1+r.Intn(3)) + w, w + rs(r, lower+"0123456789", 1+r.Intn(3))}[r.Intn(3)]
	case "<addr.v4>":
		return ipv4(r)
	case "<addr.v6>":
		return ipv6(r)
	case "<addr.v6zone>":
		return fmt.Sprintf("fe80::%x:%x%%%s", r.Intn(65536), r.Intn(65536), []string{"eth0", "ens3", "2", "wlan0.10"}[r.Intn(4)])
	case "<host.name>":
		return rs(r, lower, 1+r.Intn(8)) + "-" + rs(r, lower+"0123456789", 1+r.Intn(5)) + "." + rs(r, lower, 2+r.Intn(6)) + ".example." + rs(r, lower, 2+r.Intn(2))
	case "<port.rand>":
		return strconv.Itoa(1 + r.Intn(65535))
	case "<fp.b64>":
		return rs(r, b64, 43)
	case "<fp.b64long>":
		return rs(r, b64, 86)
	case "<fp.md5>":
		p := make([]string, 16)
		for i := range p {
			p[i] = fmt.Sprintf("%02x", r.Intn(256))
		}
		return strings.Join(p, ":")
	case "<kid.plain>":
		return rs(r, lower+"0123456789-_", 3+r.Intn(12))
	case "<kid.email>":
		return rs(r, lower, 2+r.Intn(6)) + "." + rs(r, lower, 2+r.Intn(6)) + "@" + rs(r, lower, 3+r.Intn(5)) + ".com"
	case "<kid.spaces>":
		return rs(r, lower, 2+r.Intn(5)) + " " + rs(r, lower, 1+r.Intn(5)) + "  " + rs(r, lower+"0123456789", 1+r.Intn(5))
	case "<kid.parens>":
		return rs(r, lower, 2+r.Intn(5)) + " (" + rs(r, lower, 1+r.Intn(5)) + ") " + rs(r, lower, 1+r.Intn(4)) + "(x)"
	case "<kid.serialword>":
		return []string{
			"serial " + rs(r, "0123456789", 1+r.Intn(4)) + " key",
			"my (serial " + rs(r, "0123456789", 1+r.Intn(4)) + ") id",
			"ID x (serial " + rs(r, "0123456789", 1+r.Intn(3)) + ") CA fake",
			"serial",
		}[r.Intn(4)]
	case "<ser.rand>":
		return strconv.FormatUint(r.Uint64()>>uint(r.Intn(60)), 10)
	case "<path.plain>":
		return "/" + rs(r, lower, 2+r.Intn(6)) + "/" + rs(r, lower+"._-", 1+r.Intn(10)) + "/authorized_keys"
	case "<path.odd>":
		a, b := rs(r, lower, 1+r.Intn(5)), rs(r, lower, 1+r.Intn(5))
		return []string{"//etc//" + a + "/" + b, "/etc/./" + a + "/./" + b, "/home/" + a + "/../" + b + "/.ssh/keys",
			"/" + a + "/" + b + "/", a + "/./" + b, "./" + a, "/..", "/" + a + "//"}[r.Intn(8)]
	case "<path.spaces>":
		return "/home/" + rs(r, lower, 2+r.Intn(6)) + " " + rs(r, lower, 1+r.Intn(5)) + "/my shell " + rs(r, lower, 1+r.Intn(3))
	case "<dns.plain>":
		return rs(r, lower, 2+r.Intn(8)) + "." + rs(r, lower, 2+r.Intn(8)) + ".net"
	case "<dns.odd>":
		return []string{
			"xn--" + rs(r, lower+"0123456789", 6) + "." + rs(r, lower, 3) + ".",
			rs(r, lower, 2) + "_" + rs(r, lower, 4) + ".local.",
			rs(r, lower+"0123456789-", 60) + "." + rs(r, lower, 50) + ".example",
			strconv.Itoa(r.Intn(255)) + "." + strconv.Itoa(r.Intn(255)) + ".in-addr.arpa",
		}[r.Intn(4)]
	case "<reason.plain>":
		return []string{"expired", "not yet valid", "name is not a listed principal", "not a user certificate"}[r.Intn(4)]
	case "<reason.colon>":
		return "Certificate invalid: " + rs(r, lower+" :", 3+r.Intn(20))
	case "<reason.long>":
		return rs(r, lower+" ", 200+r.Intn(300))
	case "<evil.space>":
		return rs(r, lower, 1+r.Intn(5)) + " " + rs(r, lower, 1+r.Intn(5))
	case "<evil.fromport>":
		return rs(r, lower, 1+r.Intn(5)) + " from " + ipv4(r) + " port " + strconv.Itoa(1+r.Intn(65535))
	case "<evil.fromportssh>":
		return rs(r, lower, 1+r.Intn(5)) + " from " + ipv4(r) + " port " + strconv.Itoa(1+r.Intn(65535)) + " ssh2"
	case "<evil.words>":
		return []string{"from", "port", "ssh2", "from port", " from  port ", "port 22 ssh2", "invalid user x"}[r.Intn(7)]
	case "<evil.long>":
		return rs(r, lower+" ", 100)
	case "<evil.trailfrom>":
		return rs(r, lower, 1+r.Intn(5)) + " from"
	case "<evil.escape>":
		a, b := rs(r, lower, 1+r.Intn(5)), rs(r, lower, 1+r.Intn(5))
		esc := []string{`\012`, `\n`, `\r`, `\t`, `\\`, `\303\251`, `\`, `\x41`, `\0`, `\u0041`}[r.Intn(10)]
		return []string{a + esc + b, a + esc, esc + b, a + " from 6.6.6.6 port 6" + esc + b}[r.Intn(4)]
	case "<evil.quote>":
		return rs(r, lower, 1+r.Intn(3)) + "\"'\\" + rs(r, lower, 1+r.Intn(3)) + "\t;"
	case "<evil.preauth>":
		return []string{
			rs(r, lower, 1+r.Intn(4)) + " [preauth]",
			rs(r, lower, 1+r.Intn(4)) + " from " + ipv4(r) + " port " + strconv.Itoa(1+r.Intn(65535)) + " [preauth]",
			rs(r, lower, 1+r.Intn(4)) + " from " + ipv4(r) + " port " + strconv.Itoa(1+r.Intn(65535)) + " ssh2 [preauth]",
			"[preauth] " + rs(r, lower, 1+r.Intn(4)),
		}[r.Intn(4)]
	case "<evil.other>", "<kid.phrase>":
		// phrases of sshd / PAM messages the daemon does not handle, as (part of) a client-chosen name or a key id
		ph := []string{"Connection closed by authenticating user", "Connection closed by", "Disconnected from user",
			"Disconnected from", "Received disconnect from", "pam_unix(sshd:session): session opened for user",
			"pam_unix(sshd:session): session closed for user", "pam_unix(sshd:auth): authentication failure;",
			"Connection reset by", "Did not receive identification string from", "Server listening on", "fatal:",
			"Starting session: shell on pts/0 for", "subsystem request for sftp by user", "Postponed publickey for",
			"Failed none for", "Failed publickey for", "Connection from", "debug1:", "PAM:", "Unable to negotiate with",
			"Bad protocol version identification", "kex_exchange_identification:", "Timeout before authentication for",
			"Accepted keyboard-interactive/pam for", "Disconnecting authenticating user", "Close session: user",
			"error: kex_exchange_identification: Connection closed by remote host"}
		a, b := rs(r, lower, 1+r.Intn(5)), rs(r, lower, 1+r.Intn(5))
		p1 := ph[r.Intn(len(ph))]
		if tok == "<kid.phrase>" {
			return []string{a + " " + p1 + " " + b, p1 + " " + b, a + " " + p1}[r.Intn(3)]
		}
		return []string{a + " " + p1 + " " + b, p1 + " " + b, a + " " + p1, a + " " + p1 + " " + ipv4(r) + " port " + strconv.Itoa(1+r.Intn(65535))}[r.Intn(4)]
	case "<evil.dict>":
		// random walk over the literal fragments of the grammar
		frag := []string{" from ", " port ", " ssh2", " [preauth]", ": ", "invalid user ", "Invalid user ", "Failed password for ",
			"maximum authentication attempts exceeded for ", "Accepted publickey for ", "Accepted password for ", "User ",
			" not allowed because ", "not listed in AllowUsers", "ROOT LOGIN REFUSED FROM ", "Authentication key ",
			" revoked by file ", "Error checking authentication key ", " in revoked keys file ", "Certificate invalid: ",
			"Authentication refused for ", ": bad owner or modes for ", "Nasty PTR record \"", "\" is set up for ", ", ignoring",
			"Address ", " maps to ", ", but this does not map back to the address.", " ID ", " (serial ", ") CA ", "error: ",
			"Disconnecting: ", "sshd[1]: ", " ", "  "}
		var sb strings.Builder
		for i, n := 0, 2+r.Intn(6); i < n; i++ {
			switch r.Intn(5) {
			case 0:
				sb.WriteString(ipv4(r))
			case 1:
				sb.WriteString(strconv.Itoa(r.Intn(70000)))
			case 2:
				sb.WriteString(rs(r, lower, 1+r.Intn(5)))
			default:
				sb.WriteString(frag[r.Intn(len(frag))])
			}
		}
		n := sb.String()
		if len(n) > 100 {
			n = n[:100]
		}
		return n
	case "<evil.form>":
		// a complete message of another form as the user name (sshd prints at most 100 bytes of it)
		forms := []string{
			"Authentication key RSA SHA256:" + rs(r, b64, 8) + " revoked by file /etc/ssh/revoked",
			"Error checking authentication key RSA SHA256:" + rs(r, b64, 6) + " in revoked keys file /etc/r",
			"ROOT LOGIN REFUSED FROM " + ipv4(r) + " port " + strconv.Itoa(1+r.Intn(65535)),
			"Accepted password for root from " + ipv4(r) + " port 22 ssh2",
			"Accepted publickey for root from " + ipv4(r) + " port 22 ssh2: RSA SHA256:" + rs(r, b64, 10),
			"User root from " + ipv4(r) + " not allowed because not listed in AllowUsers",
			"Invalid user x from " + ipv4(r) + " port 5",
			"Failed password for x from " + ipv4(r) + " port 5 ssh2",
			"maximum authentication attempts exceeded for x from " + ipv4(r) + " port 5 ssh2",
			"Certificate invalid: expired",
			"Nasty PTR record \"x\" is set up for " + ipv4(r) + ", ignoring",
			"Address " + ipv4(r) + " maps to a.b, but this does not map back to the address.",
			"reverse mapping checking getaddrinfo for a.b [" + ipv4(r) + "] failed.",
			"Authentication refused for x: bad owner or modes for /home/x",
		}
		n := forms[r.Intn(len(forms))]
		if len(n) > 100 {
			n = n[:100]
		}
		return n
	case "<evil.empty>":
		return ""
	case "<noise.nul>":
		return rs(r, lower, r.Intn(3)) + "\x00" + rs(r, lower, r.Intn(3))
	case "<noise.quote>":
		return "\"" + rs(r, lower+"'\\\"{}[]", 1+r.Intn(8))
	case "<noise.badutf8>":
		return rs(r, lower, r.Intn(3)) + "\xff\xfe\xc0" + rs(r, lower, r.Intn(3))
	case "<noise.huge>":
		return rs(r, lower+" :()", 20000+r.Intn(50000))
	case "<noise.ctrl>":
		return rs(r, lower, r.Intn(3)) + "\r\t\x1b[31m" + rs(r, lower, r.Intn(3))
	case "<noise.empty>":
		return ""
	case "<pid.literal>":
		if v := os.Getenv("VERIF_REPLAY_PID"); v != "" {
			return v
		}
		return "1"
	case "<pid.pos>":
		return strconv.Itoa(1 + r.Intn(4194304))
	case "<pid.one>":
		return "1"
	case "<pid.max>":
		return "4194304"
	case "<pid.oct8>":
		// leading zero followed by 8/9: a decimal numeral that is not a valid octal one
		return "0" + rs(r, "89", 1) + rs(r, "0123456789", 1+r.Intn(3))
	case "<pid.zero>":
		return "0"
	case "<pid.neg>":
		return "-" + strconv.Itoa(1+r.Intn(99999))
	case "<pid.plus>":
		return "+" + strconv.Itoa(1+r.Intn(99999))
	case "<pid.alpha>":
		return rs(r, lower, 1+r.Intn(5))
	case "<pid.huge>":
		return "9" + rs(r, "0123456789", 20+r.Intn(10))
	case "<pid.empty>":
		return ""
	case "<pid.hex>":
		return "0x" + rs(r, "0123456789abcdef", 1+r.Intn(4))
	case "<pid.lead0>":
		return "00" + strconv.Itoa(1+r.Intn(9999))
	}
	return tok // unknown token: left as is (shows up in the line and the expectation alike)
}

// Subst maps every token in the vector to one value.
type Subst map[string]string

func NewSubst(r *rand.Rand, v *Vector) Subst {
	s := Subst{}
	for _, raw := range [][]byte{[]byte(v.Line), v.Event, v.Login} {
		for _, t := range tokRE.FindAllString(string(raw), -1) {
			if _, ok := s[t]; !ok && t != "<PID>" {
				s[t] = Gen(r, t)
			}
		}
	}
	return s
}

func (s Subst) Plain(x string) string {
	return tokRE.ReplaceAllStringFunc(x, func(t string) string {
		if v, ok := s[t]; ok {
			return v
		}
		return t
	})
}

// jsonText substitutes inside JSON text: values are JSON-escaped.
func (s Subst) JSONText(x []byte) []byte {
	esc := func(v string) string {
		b, _ := json.Marshal(v)
		return string(b[1 : len(b)-1])
	}
	y := tokRE.ReplaceAllStringFunc(string(x), func(t string) string {
		if v, ok := s[t]; ok {
			return esc(v)
		}
		return t
	})
	return []byte(strings.ReplaceAll(y, "<PID>", esc(s["<PID>"])))
}

// Obs is what the real code did for one delivery of one line.
type Obs struct {
	Panic   string           `json:"panic"`
	Err     string           `json:"err"`
	Events  []map[string]any `json:"events"`
	TsOK    bool             `json:"tsok"`
	TgtOK   bool             `json:"tgtok"`
	IDOK    bool             `json:"idok"`
	Logins  []LoginObs       `json:"logins"`
	Ctr     []CtrObs         `json:"ctr"`
	Substr  bool             `json:"substr"`
	Foreign []string         `json:"foreign"`
	// Stable: every login handed over EARLIER in this session still carries the event it carried when it was
	// handed over (the correlator keeps the login and renders its subjects / source into later events)
	Stable bool `json:"stable"`
}

type LoginObs struct {
	Pid   int    `json:"pid"`
	Cred  string `json:"cred"`
	Same  bool   `json:"same"`  // Source is the very *AuditEvent that was written
	After bool   `json:"after"` // received after that event's write had completed
}

type CtrObs struct {
	Method  string `json:"method"`
	Outcome string `json:"outcome"`
	N       int    `json:"n"`
}

// Enc captures written events (pointer and serialised form) with a sequence number.
type Enc struct {
	mu     sync.Mutex
	Ptrs   []*auditevent.AuditEvent
	Raw    [][]byte
	DoneAt []int64
	seq    *int64
	Fail   bool
}

func (e *Enc) Encode(v any) error {
	e.mu.Lock()
	defer e.mu.Unlock()
	if e.Fail {
		return fmt.Errorf("verif: injected write failure")
	}
	b, err := json.Marshal(v)
	if err != nil {
		return err
	}
	p, _ := v.(*auditevent.AuditEvent)
	e.Ptrs = append(e.Ptrs, p)
	e.Raw = append(e.Raw, b)
	*e.seq++
	e.DoneAt = append(e.DoneAt, *e.seq)
	return nil
}

var placeholders = map[string]bool{"unknown": true, "root": true, "unknown reason": true}

func leafStrings(prefix string, v any, out map[string]string) {
	switch x := v.(type) {
	case map[string]any:
		for k, vv := range x {
			leafStrings(prefix+"."+k, vv, out)
		}
	case string:
		out[prefix] = x
	}
}

// Counters: the children of the remote-logins counter.
func Counters(reg *prometheus.Registry) []CtrObs { return counters(reg) }

func counters(reg *prometheus.Registry) []CtrObs {
	mfs, _ := reg.Gather()
	var out []CtrObs
	for _, mf := range mfs {
		if mf.GetName() != "audito_maldito_remote_logins_total" {
			continue
		}
		for _, m := range mf.GetMetric() {
			out = append(out, CtrObs{Method: label(m, "method"), Outcome: label(m, "outcome"),
				N: int(m.GetCounter().GetValue())})
		}
	}
	sort.Slice(out, func(i, j int) bool { return out[i].Method+out[i].Outcome < out[j].Method+out[j].Outcome })
	if out == nil {
		out = []CtrObs{}
	}
	return out
}

func label(m *dto.Metric, name string) string {
	for _, l := range m.GetLabel() {
		if l.GetName() == name {
			return l.GetValue()
		}
	}
	return ""
}

// Mode selects how the line reaches the processor.
type Mode int

const (
	Direct Mode = iota // ProcessSshdLogEntry(pid, message)
	Framed             // SyslogIngester.Process("<pid><pad><message>\n")
)

// session: one processor with its own registry, event sink and login receiver.
type session struct {
	seq    int64
	enc    *Enc
	reg    *prometheus.Registry
	proc   sshd.SshdProcessor
	ctx    context.Context
	cancel context.CancelFunc
	done   chan struct{}
	syncc  chan chan struct{}
	mu     sync.Mutex
	got    []common.RemoteUserLogin
	gotAt  []int64
	held   []heldLogin
}

type heldLogin struct {
	src  *auditevent.AuditEvent
	snap []byte
}

func newSession() *session {
	s := &session{done: make(chan struct{}), syncc: make(chan chan struct{})}
	s.enc = &Enc{seq: &s.seq}
	s.reg = prometheus.NewRegistry()
	pm := metrics.NewPrometheusMetricsProviderForRegisterer(s.reg)
	logins := make(chan common.RemoteUserLogin)
	s.ctx, s.cancel = context.WithCancel(context.Background())
	s.proc = sshd.NewSshdProcessor(s.ctx, logins, NodeName, MachineID, auditevent.NewAuditEventWriter(s.enc), pm)
	go func() {
		defer close(s.done)
		for {
			select {
			case l := <-logins:
				s.enc.mu.Lock()
				s.seq++
				at := s.seq
				s.enc.mu.Unlock()
				s.mu.Lock()
				s.gotAt = append(s.gotAt, at)
				s.got = append(s.got, l)
				s.mu.Unlock()
			case ch := <-s.syncc: // everything received so far has been recorded
				close(ch)
			case <-s.ctx.Done():
				return
			}
		}
	}()
	return s
}

func (s *session) close() {
	s.cancel()
	<-s.done
}

// deliver hands one line to the session's processor and observes what that line added: events, logins, counter
// movements (the difference of the registry before and after).
func (s *session) deliver(mode Mode, pid, line string, pad int) Obs {
	obs := Obs{Events: []map[string]any{}, Logins: []LoginObs{}, TsOK: true, TgtOK: true, IDOK: true, Substr: true,
		Foreign: []string{}, Stable: true}
	s.enc.mu.Lock()
	ev0 := len(s.enc.Raw)
	s.enc.mu.Unlock()
	s.mu.Lock()
	lg0 := len(s.got)
	s.mu.Unlock()
	ctr0 := counters(s.reg)

	before := time.Now()
	func() {
		defer func() {
			if r := recover(); r != nil {
				obs.Panic = fmt.Sprint(r)
			}
		}()
		var err error
		switch mode {
		case Direct:
			err = s.proc.ProcessSshdLogEntry(s.ctx, sshd.SshdLogEntry{PID: pid, Message: line})
		case Framed:
			h := health.NewHealth()
			ing := syslog.NewSyslogIngester("", s.proc, namedpipe.NewNamedPipeIngester(zap.NewNop().Sugar(), h))
			err = ing.Process(s.ctx, pid+strings.Repeat(" ", pad)+line+"\n")
		}
		if err != nil {
			obs.Err = err.Error()
		}
	}()
	after := time.Now()
	ch := make(chan struct{})
	s.syncc <- ch
	<-ch

	s.enc.mu.Lock()
	raws := append([][]byte(nil), s.enc.Raw[ev0:]...)
	ptrs := append([]*auditevent.AuditEvent(nil), s.enc.Ptrs[ev0:]...)
	doneAt := append([]int64(nil), s.enc.DoneAt[ev0:]...)
	s.enc.mu.Unlock()
	s.mu.Lock()
	got := append([]common.RemoteUserLogin(nil), s.got[lg0:]...)
	gotAt := append([]int64(nil), s.gotAt[lg0:]...)
	s.mu.Unlock()

	for _, raw := range raws {
		m, tsok, tgtok, idok := Normalize(raw, before, after)
		obs.TsOK = obs.TsOK && tsok
		obs.TgtOK = obs.TgtOK && tgtok
		obs.IDOK = obs.IDOK && idok
		// substring check of extracted values (against the line as JSON renders it:
		// every invalid byte becomes U+FFFD)
		lb, _ := json.Marshal(line)
		var jline string
		_ = json.Unmarshal(lb, &jline)
		leaves := map[string]string{}
		leafStrings("", m, leaves)
		for k, val := range leaves {
			switch k {
			case ".type", ".outcome", ".component", ".source.type", ".data.error", ".subjects.pid":
				continue
			}
			if !placeholders[val] && !strings.Contains(line, val) && !strings.Contains(jline, val) {
				obs.Substr = false
				obs.Foreign = append(obs.Foreign, k)
			}
		}
		obs.Events = append(obs.Events, m)
	}
	for i, l := range got {
		lo := LoginObs{Pid: l.PID, Cred: l.CredUserID}
		for j, p := range ptrs {
			if p != nil && p == l.Source {
				lo.Same = true
				lo.After = doneAt[j] < gotAt[i]
			}
		}
		obs.Logins = append(obs.Logins, lo)
	}
	obs.Ctr = ctrDelta(ctr0, counters(s.reg))
	sort.Strings(obs.Foreign)
	// logins handed over earlier must be untouched by this line
	for _, h := range s.held {
		if now, _ := json.Marshal(h.src); !bytes.Equal(now, h.snap) {
			obs.Stable = false
		}
	}
	for _, l := range got {
		if l.Source != nil {
			snap, _ := json.Marshal(l.Source)
			s.held = append(s.held, heldLogin{src: l.Source, snap: snap})
		}
	}
	if len(s.held) > 64 { // the correlator holds a login for the life of a session; a window is enough here
		s.held = s.held[len(s.held)-64:]
	}
	return obs
}

// ctrDelta: the counter children that moved, with the amount.
func ctrDelta(a, b []CtrObs) []CtrObs {
	old := map[string]int{}
	for _, c := range a {
		old[c.Method+"\x00"+c.Outcome] = c.N
	}
	out := []CtrObs{}
	for _, c := range b {
		if d := c.N - old[c.Method+"\x00"+c.Outcome]; d != 0 {
			out = append(out, CtrObs{Method: c.Method, Outcome: c.Outcome, N: d})
		}
	}
	return out
}

// Deliver hands one line to a fresh processor and observes.
func Deliver(mode Mode, pid, line string, pad int) Obs {
	s := newSession()
	defer s.close()
	return s.deliver(mode, pid, line, pad)
}

// Stream is a long-lived processor (one registry, one event sink) that sees line after line, as in the daemon.
type Stream struct{ s *session }

func (st *Stream) Deliver(pid, line string) Obs {
	if st.s == nil {
		st.s = newSession()
	}
	o := st.s.deliver(Direct, pid, line, 0)
	if o.Panic != "" { // start over after a panic (reported by the observation)
		st.s.close()
		st.s = nil
	}
	return o
}

func (st *Stream) Close() {
	if st.s != nil {
		st.s.close()
		st.s = nil
	}
}

// Normalize decodes a written event and strips what is environment specific
// (timestamp, audit id, target), reporting whether those were as configured.
func Normalize(raw []byte, before, after time.Time) (m map[string]any, tsok, tgtok, idok bool) {
	_ = json.Unmarshal(raw, &m)
	var e auditevent.AuditEvent
	_ = json.Unmarshal(raw, &e)
	tsok = before.IsZero() || !(e.LoggedAt.Before(before.Add(-time.Millisecond)) || e.LoggedAt.After(after.Add(time.Millisecond)))
	tgtok = reflect.DeepEqual(e.Target, map[string]string{"host": NodeName, "machine-id": MachineID})
	idok = e.Metadata.AuditID != ""
	delete(m, "loggedAt")
	delete(m, "target")
	if md, ok := m["metadata"].(map[string]any); ok {
		delete(md, "auditId")
		if len(md) == 0 {
			delete(m, "metadata")
		}
	}
	return m, tsok, tgtok, idok
}

// Rec is one line of the recorded trace.
type Rec struct {
	K       string          `json:"k"`
	Form    string          `json:"form"`
	Fam     string          `json:"fam"`
	Emits   bool            `json:"emits"`
	Line    string          `json:"line"`
	LineLen int             `json:"linelen"`
	Pid     string          `json:"pid"`
	PidInt  int             `json:"pidint"`
	Event   json.RawMessage `json:"event"`
	Login   json.RawMessage `json:"login"`
	Ctr     json.RawMessage `json:"counter"`
	Direct  *Obs            `json:"direct,omitempty"`
	Framed  *Obs            `json:"framed,omitempty"`
	Fifo    *FifoObs        `json:"fifo,omitempty"`
	Stream  *Obs            `json:"stream,omitempty"`
	Stream2 *Obs            `json:"stream2,omitempty"` // the same line once more, right behind itself (sshd logs repeats)
	Pad     int             `json:"pad"`
	Vec     int             `json:"vec"`
	Conc    int             `json:"conc"`
	Twin    bool            `json:"twin"` // concretised from the previous record's values (half of them kept)
	Subst   Subst           `json:"-"`
}

// Run concretises a vector and delivers it.
// prev (optional): the substitution of the previous concretisation of the same vector; a random half of its values is
// kept ("the same key with a new serial", "the same user from another address"): values that recur from line to line
// while the rest changes are what a cache keyed on part of a message gets wrong.
// reusePid (optional): the PID token of the record delivered just before this one (a process logs several lines; a PID
// is used again by a later process): state keyed by the PID must not leak from one line into another.
func Run(v *Vector, r *rand.Rand, vecIdx, conc int, framed bool, fifo **FifoSession, fifoDir string, stream *Stream, prev Subst, reusePid string) Rec {
	s := NewSubst(r, v)
	if prev != nil {
		keys := make([]string, 0, len(s))
		for t := range s {
			keys = append(keys, t)
		}
		sort.Strings(keys)
		for _, t := range keys {
			if pv, ok := prev[t]; ok && r.Intn(2) == 0 {
				s[t] = pv
			}
		}
	}
	pidtok := v.PidTok
	if pidtok == "" {
		pidtok = "<pid.pos>"
	}
	pid := Gen(r, pidtok)
	if reusePid != "" && pidtok == "<pid.pos>" {
		pid = reusePid
	}
	// now and then the PID's digits recur inside the message: the client's port equals the PID
	if port, ok := s["<port.rand>"]; ok && pidtok == "<pid.pos>" && reusePid == "" && r.Intn(8) == 0 {
		pid = port
		if pid == "0" {
			pid = "22"
			s["<port.rand>"] = "22"
		}
	}
	s["<PID>"] = pid
	line := s.Plain(v.Line)
	rec := Rec{K: "vec", Form: v.Form, Fam: v.Fam, Emits: v.Emits, Pid: pid, Vec: vecIdx, Conc: conc,
		LineLen: len(line), Pad: 1 + r.Intn(3), Twin: prev != nil, Subst: s}
	rec.PidInt, _ = strconv.Atoi(pid)
	if v.Event != nil {
		rec.Event = s.JSONText(v.Event)
		rec.Login = s.JSONText(v.Login)
		rec.Ctr = v.Counter
	} else {
		rec.Event = json.RawMessage("{}")
		rec.Login = json.RawMessage("{}")
		rec.Ctr = json.RawMessage("{}")
	}
	d := Deliver(Direct, pid, line, 0)
	rec.Direct = &d
	if stream != nil {
		// now and then the same sshd process has just logged a failed attempt from some peer (not recorded here):
		// nothing of that line may show in what THIS line adds
		if rec.PidInt > 0 && r.Intn(4) == 0 {
			primer := []string{
				"Failed password for primer from 198.51.100.7 port 4444 ssh2",
				"Invalid user primer from 198.51.100.8 port 4445",
				"maximum authentication attempts exceeded for primer from 198.51.100.9 port 4446 ssh2",
				"ROOT LOGIN REFUSED FROM 198.51.100.10 port 4447",
			}[r.Intn(4)]
			stream.Deliver(pid, primer)
		}
		so := stream.Deliver(pid, line)
		rec.Stream = &so
		if r.Intn(3) == 0 {
			so2 := stream.Deliver(pid, line)
			rec.Stream2 = &so2
		}
	}
	// Framing is defined for a message that does not start with padding, a pid
	// token without blanks, and a line without the record delimiter.
	if framed && !strings.ContainsAny(line, "\n") && !strings.HasPrefix(line, " ") &&
		!strings.ContainsAny(pid, " \n") && pid != "" {
		f := Deliver(Framed, pid, line, rec.Pad)
		rec.Framed = &f
		if fifo != nil {
			if *fifo == nil {
				*fifo, _ = NewFifoSession(fifoDir)
			}
			if *fifo != nil {
				fo, ok := (*fifo).Deliver(pid, line, rec.Pad)
				rec.Fifo = &fo
				if !ok {
					(*fifo).Close()
					*fifo = nil
				}
			}
		}
	}
	// keep the trace small: very long lines are recorded by prefix only (TLC only
	// looks at the beginning of the line, for the keyword test)
	if len(line) > 400 {
		line = line[:400]
	}
	lb, _ := json.Marshal(line)
	_ = json.Unmarshal(lb, &rec.Line)
	return rec
}
