package sshdvec

import (
	"context"
	"encoding/json"
	"fmt"
	"os"
	"path/filepath"
	"strings"
	"sync"
	"syscall"
	"time"

	"github.com/metal-toolbox/auditevent"
	"github.com/prometheus/client_golang/prometheus"
	"go.uber.org/zap"

	"github.com/metal-toolbox/audito-maldito/ingesters/namedpipe"
	"github.com/metal-toolbox/audito-maldito/ingesters/syslog"
	"github.com/metal-toolbox/audito-maldito/internal/common"
	"github.com/metal-toolbox/audito-maldito/internal/health"
	"github.com/metal-toolbox/audito-maldito/internal/metrics"
	"github.com/metal-toolbox/audito-maldito/processors/sshd"
)

// FifoObs is what reached the encoder / the logins channel for one record
// written to the real FIFO and read by the real ingester chain.
type FifoObs struct {
	Events []map[string]any `json:"events"`
	Logins []FifoLogin      `json:"logins"`
	Err    string           `json:"err"`
}

type FifoLogin struct {
	Pid  int    `json:"pid"`
	Cred string `json:"cred"`
}

// FifoSession is one real FIFO + NamedPipeIngester + SyslogIngester + sshd
// processor.  Records are separated by a sentinel line whose event marks
// "everything before has been processed".
type FifoSession struct {
	dir    string
	path   string
	w      *os.File
	mu     sync.Mutex
	cond   *sync.Cond
	raw    [][]byte
	logins []common.RemoteUserLogin
	cancel context.CancelFunc
	done   chan error
	seq    int
}

type fifoEnc struct{ s *FifoSession }

func (e fifoEnc) Encode(v any) error {
	b, err := json.Marshal(v)
	if err != nil {
		return err
	}
	e.s.mu.Lock()
	e.s.raw = append(e.s.raw, b)
	e.s.cond.Broadcast()
	e.s.mu.Unlock()
	return nil
}

func NewFifoSession(dir string) (*FifoSession, error) {
	s := &FifoSession{dir: dir, done: make(chan error, 1)}
	s.cond = sync.NewCond(&s.mu)
	s.path = filepath.Join(dir, fmt.Sprintf("sshd-pipe-%d", time.Now().UnixNano()))
	if err := syscall.Mkfifo(s.path, 0o600); err != nil {
		return nil, err
	}
	ctx, cancel := context.WithCancel(context.Background())
	s.cancel = cancel
	logins := make(chan common.RemoteUserLogin)
	pm := metrics.NewPrometheusMetricsProviderForRegisterer(prometheus.NewRegistry())
	proc := sshd.NewSshdProcessor(ctx, logins, NodeName, MachineID, auditevent.NewAuditEventWriter(fifoEnc{s}), pm)
	h := health.NewHealth()
	ing := syslog.NewSyslogIngester(s.path, proc, namedpipe.NewNamedPipeIngester(zap.NewNop().Sugar(), h))
	go func() { s.done <- ing.Ingest(ctx) }()
	go func() {
		for {
			select {
			case l := <-logins:
				s.mu.Lock()
				s.logins = append(s.logins, l)
				s.mu.Unlock()
			case <-ctx.Done():
				return
			}
		}
	}()
	w, err := os.OpenFile(s.path, os.O_WRONLY, 0)
	if err != nil {
		cancel()
		return nil, err
	}
	s.w = w
	return s, nil
}

func (s *FifoSession) Close() {
	s.cancel()
	s.w.Close()
	select {
	case <-s.done:
	case <-time.After(2 * time.Second):
	}
	os.Remove(s.path)
}

// Deliver writes "<pid><pad><line>\n" and a sentinel, and returns what the
// record produced.  ok=false means the session is dead (ingester returned).
func (s *FifoSession) Deliver(pid, line string, pad int) (obs FifoObs, ok bool) {
	obs = FifoObs{Events: []map[string]any{}, Logins: []FifoLogin{}}
	s.seq++
	sentPid := fmt.Sprintf("77%07d", s.seq)
	s.mu.Lock()
	startEv, startLg := len(s.raw), len(s.logins)
	s.mu.Unlock()
	payload := pid + strings.Repeat(" ", pad) + line + "\n" +
		sentPid + " Accepted password for verifsentinel from 127.0.0.1 port 1 ssh2\n"
	if _, err := s.w.WriteString(payload); err != nil {
		obs.Err = err.Error()
		return obs, false
	}
	deadline := time.Now().Add(5 * time.Second)
	idx := -1
	for idx < 0 {
		s.mu.Lock()
		for i := startEv; i < len(s.raw); i++ {
			if strings.Contains(string(s.raw[i]), `"pid":"`+sentPid+`"`) && strings.Contains(string(s.raw[i]), "verifsentinel") {
				idx = i
			}
		}
		s.mu.Unlock()
		if idx >= 0 {
			break
		}
		select {
		case err := <-s.done:
			obs.Err = fmt.Sprint(err)
			s.done <- err
			return obs, false
		default:
		}
		if time.Now().After(deadline) {
			obs.Err = "timeout waiting for the sentinel"
			return obs, false
		}
		time.Sleep(200 * time.Microsecond)
	}
	// the sentinel's own login is forwarded after its event: wait for it
	for {
		s.mu.Lock()
		n := len(s.logins)
		have := n > startLg && s.logins[n-1].CredUserID == "unknown" && fmt.Sprint(s.logins[n-1].PID) == strings.TrimLeft(sentPid, "0")
		s.mu.Unlock()
		if have || time.Now().After(deadline) {
			break
		}
		time.Sleep(100 * time.Microsecond)
	}
	s.mu.Lock()
	defer s.mu.Unlock()
	for _, raw := range s.raw[startEv:idx] {
		m, _, _, _ := Normalize(raw, time.Time{}, time.Time{})
		obs.Events = append(obs.Events, m)
	}
	for _, l := range s.logins[startLg:] {
		if fmt.Sprint(l.PID) == strings.TrimLeft(sentPid, "0") {
			continue
		}
		obs.Logins = append(obs.Logins, FifoLogin{Pid: l.PID, Cred: l.CredUserID})
	}
	return obs, true
}
