// l3 prepares and analyses runs of the BUILT DAEMON (L3):
//
//	-mode gen      turns abstract histories (TLC, specs/TrackerSim.tla) into two input scripts per history: the
//	               lines for the sshd FIFO ("<pid> Accepted ...") and the lines for the audit FIFO (record groups)
//	-mode analyse  reads the daemon's output file (and the strace log of its writes) for each script and writes
//	               the trace for specs/TrackerTrace.tla: the calls, then one "outs" step with everything the daemon
//	               emitted, projected to the model's vocabulary.
package main

import (
	"bufio"
	"encoding/json"
	"flag"
	"fmt"
	"math/rand"
	"os"
	"path/filepath"
	"reflect"
	"regexp"
	"strconv"
	"strings"

	"github.com/metal-toolbox/audito-maldito/verifharness/auditgen"
	"github.com/metal-toolbox/audito-maldito/verifharness/l1"
)

type Script struct {
	ID      int      `json:"id"`
	Sshd    []string `json:"sshd"`
	Audit   []string `json:"audit"`
	NFailed int      `json:"nfailed"` // failed-login lines in the sshd script (each yields one failed UserLogin)
}

// render reproduces deterministically the concretisation of one history.
type rendered struct {
	w      *l1.World
	gen    *auditgen.Gen
	tsTag  map[int64]int
	script Script
	calls  []l1.Call
	users  map[string]int // loggedAs -> login id
}

func render(id int, hist []l1.Call, seed int64) *rendered {
	r := &rendered{w: l1.NewWorld(seed), gen: auditgen.New(rand.New(rand.NewSource(seed ^ 0x5eed))), tsTag: map[int64]int{},
		users: map[string]int{}, script: Script{ID: id, Sshd: []string{}, Audit: []string{}}}
	rng := rand.New(rand.NewSource(seed ^ 0x77))
	for _, c := range hist {
		switch c.K {
		case "login":
			pid := r.w.RealPid(c.Pid)
			user := fmt.Sprintf("user%dx%d", c.ID, seed%1000)
			r.users[user] = c.ID
			ip := fmt.Sprintf("10.%d.%d.%d", c.ID/250, c.ID%250, 1+rng.Intn(250))
			port := 1024 + rng.Intn(60000)
			var line string
			switch c.ID % 4 {
			case 3: // a key fingerprint followed by text that is not a certificate identity
				line = fmt.Sprintf("%d Accepted publickey for %s from %s port %d ssh2: ED25519 SHA256:YI+caZKJCNaXgsD0NvRZ2fLaEeF46cEVyadru/SL76o, agent forwarding", pid, user, ip, port)
			case 0:
				line = fmt.Sprintf("%d Accepted password for %s from %s port %d ssh2", pid, user, ip, port)
			case 1:
				line = fmt.Sprintf("%d Accepted publickey for %s from %s port %d ssh2: ED25519 SHA256:YI+caZKJCNaXgsD0NvRZ2fLaEeF46cEVyadru/SL76o", pid, user, ip, port)
			default:
				line = fmt.Sprintf("%d Accepted publickey for %s from %s port %d ssh2: ED25519-CERT SHA256:YI+caZKJCNaXgsD0NvRZ2fLaEeF46cEVyadru/SL76o ID %s@example.com (serial %d) CA ED25519 SHA256:Pcs5TWfcOSKb7Rw/XyvHfUcaQzmw6HtLrjUoyXuzIj8",
					pid, user, ip, port, user, c.ID)
			}
			// now and then the successful login is preceded by a long series of failed attempts from the SAME address
			// (a client behind the same NAT, a user fumbling): each is its own failed UserLogin, and the success that
			// follows is recorded like any other
			if rng.Intn(3) == 0 {
				n := 32 + rng.Intn(14)
				for k := 0; k < n; k++ {
					r.script.Sshd = append(r.script.Sshd, fmt.Sprintf("%d Failed password for %s from %s port %d ssh2", 60000+rng.Intn(5000), user, ip, 1024+rng.Intn(60000)))
					r.script.NFailed++
				}
			}
			r.script.Sshd = append(r.script.Sshd, line)
			r.calls = append(r.calls, c)
			// bursts of failed attempts by other clients share the sshd pipe (they do not concern the correlator)
			if rng.Intn(2) == 0 {
				n := 12 + rng.Intn(25)
				for k := 0; k < n; k++ {
					fp := 50000 + rng.Intn(9000)
					if k%2 == 0 {
						r.script.Sshd = append(r.script.Sshd, fmt.Sprintf("%d Invalid user evil%dx%d from 10.9.%d.%d port %d", fp, k, c.ID, rng.Intn(250), rng.Intn(250), 1024+rng.Intn(60000)))
					} else {
						r.script.Sshd = append(r.script.Sshd, fmt.Sprintf("%d Failed password for invalid user evil%dx%d from 10.9.%d.%d port %d ssh2", fp, k, c.ID, rng.Intn(250), rng.Intn(250), 1024+rng.Intn(60000)))
					}
					r.script.NFailed++
				}
			}
		case "audit":
			pid := strconv.Itoa(r.w.RealPid(c.Pid))
			g := r.gen.Lines(auditgen.Event{Tag: c.Tag, Sess: r.w.RealSess(c.Sess), Typ: c.Typ, Pid: pid, Res: c.Res, Args: c.Args})
			r.tsTag[g.TS.UnixNano()] = c.Tag
			if ref, err := auditgen.Reference(g.Lines); err == nil {
				c.Res, c.Args = ref.Result, len(ref.Process.Args) > 0
			}
			r.script.Audit = append(r.script.Audit, g.Lines...)
			r.calls = append(r.calls, c)
		}
	}
	return r
}

func usable(hist []l1.Call) bool {
	for _, c := range hist {
		if c.K == "badlogin" || (c.K == "audit" && c.Typ == "LOGIN" && c.Pid == 0) {
			return false
		}
	}
	return true
}

var writeRE = regexp.MustCompile(`write\(\d+(?:<[^>]*>)?, "((?:[^"\\]|\\.)*)"(\.\.\.)?, (\d+)\)\s+= (-?\d+)`)

func main() {
	mode := flag.String("mode", "gen", "gen | analyse")
	in := flag.String("in", "", "histories (json lines)")
	dir := flag.String("dir", "", "directory with script-<id>.json / out-<id>.log / strace-<id>.txt")
	out := flag.String("out", "", "trace (ndjson) for -mode analyse")
	seed := flag.Int64("seed", 1, "seed")
	flag.Parse()
	var hists [][]l1.Call
	fi, err := os.Open(*in)
	must(err)
	sc := bufio.NewScanner(fi)
	sc.Buffer(make([]byte, 1<<20), 1<<28)
	for sc.Scan() {
		var h []l1.Call
		must(json.Unmarshal(sc.Bytes(), &h))
		var g []l1.Call
		for _, c := range h {
			if c.K == "login" || c.K == "audit" {
				g = append(g, c)
			}
		}
		if usable(g) {
			hists = append(hists, g)
		}
	}
	if *mode == "gen" {
		for i, h := range hists {
			r := render(i, h, *seed+int64(i)*7919)
			b, _ := json.Marshal(r.script)
			must(os.WriteFile(filepath.Join(*dir, fmt.Sprintf("script-%d.json", i)), b, 0o600))
		}
		fmt.Printf("{\"scripts\":%d}\n", len(hists))
		return
	}
	fo, err := os.Create(*out)
	must(err)
	bw := bufio.NewWriter(fo)
	enc := json.NewEncoder(bw)
	nl, nout := 0, 0
	for i, h := range hists {
		r := render(i, h, *seed+int64(i)*7919)
		raw, err := os.ReadFile(filepath.Join(*dir, fmt.Sprintf("out-%d.log", i)))
		if err != nil {
			continue
		}
		must(enc.Encode(map[string]any{"k": "reset", "h": i}))
		for _, c := range r.calls {
			b, _ := json.Marshal(l1.Rec{Call: c, Outs: []l1.Out{}})
			var m map[string]any
			_ = json.Unmarshal(b, &m)
			m["defer"] = true
			must(enc.Encode(m))
		}
		// the output file
		type ev struct {
			Outcome  string            `json:"outcome"`
			Type     string            `json:"type"`
			Subjects map[string]string `json:"subjects"`
			Source   any               `json:"source"`
			Target   any               `json:"target"`
		}
		torn, nfailed := 0, 0
		stream := []map[string]any{}
		outs := []l1.Out{}
		logins := map[int]ev{}
		text := string(raw)
		// what an earlier run of the daemon left in the file must still be there, untouched, in front of the new lines
		priorok := true
		if prior, err := os.ReadFile(filepath.Join(*dir, fmt.Sprintf("prior-%d.txt", i))); err == nil && len(prior) > 0 {
			if strings.HasPrefix(text, string(prior)) {
				text = text[len(prior):]
			} else {
				priorok = false
			}
		}
		if len(text) > 0 && !strings.HasSuffix(text, "\n") {
			torn++
		}
		for _, line := range strings.Split(strings.TrimSuffix(text, "\n"), "\n") {
			if line == "" {
				continue
			}
			nl++
			var e ev
			if err := json.Unmarshal([]byte(line), &e); err != nil || e.Type == "" {
				torn++
				continue
			}
			if e.Type == "PriorRun" { // only met when the prior content was damaged (reported by priorok)
				continue
			}
			if e.Type == "UserLogin" && e.Outcome == "failed" {
				nfailed++
				stream = append(stream, map[string]any{"kind": "failed", "id": 0})
				continue
			}
			if e.Type == "UserLogin" {
				id, ok := r.users[e.Subjects["loggedAs"]]
				if !ok {
					id = -1
				}
				logins[id] = e
				stream = append(stream, map[string]any{"kind": "login", "id": id})
				continue
			}
			// a UserAction: project through the same code as L1/L2 (time stamp -> tag, session -> model name)
			o := r.w.ProjectL3([]byte(line), r.tsTag)
			o.ID = -1
			for id, le := range logins {
				if reflect.DeepEqual(le.Subjects, e.Subjects) && reflect.DeepEqual(le.Source, e.Source) && reflect.DeepEqual(le.Target, e.Target) {
					o.ID = id
				}
			}
			outs = append(outs, o)
			stream = append(stream, map[string]any{"kind": "action", "id": o.ID})
			nout++
		}
		// strace: one write(2) per event, each a whole line
		badw, nw := 0, 0
		if sb, err := os.ReadFile(filepath.Join(*dir, fmt.Sprintf("strace-%d.txt", i))); err == nil {
			for _, m := range writeRE.FindAllStringSubmatch(joinUnfinished(string(sb)), -1) {
				nw++
				data, trunc, want, got := m[1], m[2], m[3], m[4]
				nls := strings.Count(strings.ReplaceAll(data, `\\`, ""), `\n`)
				if trunc != "" || want != got || nls != 1 || !strings.HasSuffix(data, `\n`) {
					badw++
				}
			}
		}
		must(enc.Encode(map[string]any{"k": "outs", "outs": outs, "err": false, "mut": false, "stream": stream,
			"torn": torn, "badwrites": badw, "writes": nw, "lines": len(stream), "failed": nfailed, "failedwant": r.script.NFailed, "priorok": priorok}))
	}
	bw.Flush()
	fo.Close()
	fmt.Printf("{\"runs\":%d,\"output_lines\":%d,\"actions\":%d}\n", len(hists), nl, nout)
}

// joinUnfinished merges strace's "<unfinished ...>" / "<... write resumed>" pairs (per thread) into one line.
func joinUnfinished(s string) string {
	pending := map[string]string{}
	var out []string
	for _, ln := range strings.Split(s, "\n") {
		pid := ln
		if i := strings.IndexByte(ln, ' '); i > 0 {
			pid = ln[:i]
		}
		switch {
		case strings.HasSuffix(ln, " <unfinished ...>"):
			pending[pid] = strings.TrimSuffix(ln, " <unfinished ...>")
		case strings.Contains(ln, "<... write resumed>"):
			if p, ok := pending[pid]; ok {
				j := strings.Index(ln, "<... write resumed>")
				out = append(out, p+ln[j+len("<... write resumed>"):])
				delete(pending, pid)
			}
		default:
			out = append(out, ln)
		}
	}
	return strings.Join(out, "\n")
}

func must(err error) {
	if err != nil {
		fmt.Fprintln(os.Stderr, err)
		os.Exit(2)
	}
}
