// trackerl1 replays abstract histories (one JSON array of calls per line, as
// exported by TLC from specs/Tracker.tla) on the real sessionTracker and writes
// the recorded trace as ndjson for validation by specs/TrackerTrace.tla.
package main

import (
	"bufio"
	"encoding/json"
	"flag"
	"fmt"
	"os"

	"github.com/metal-toolbox/audito-maldito/verifharness/l1"
)

func main() {
	in := flag.String("in", "", "histories file (json lines)")
	out := flag.String("out", "", "trace file (ndjson)")
	seed := flag.Int64("seed", 1, "concretisation seed")
	noState := flag.Bool("nostate", false, "do not record snapshots")
	flag.Parse()

	fi, err := os.Open(*in)
	if err != nil {
		fmt.Fprintln(os.Stderr, err)
		os.Exit(2)
	}
	defer fi.Close()
	fo, err := os.Create(*out)
	if err != nil {
		fmt.Fprintln(os.Stderr, err)
		os.Exit(2)
	}
	bw := bufio.NewWriterSize(fo, 1<<20)
	enc := json.NewEncoder(bw)

	sc := bufio.NewScanner(fi)
	sc.Buffer(make([]byte, 1<<20), 1<<28)
	nh, ncalls, nouts, npanic := 0, 0, 0, 0
	for sc.Scan() {
		var hist []l1.Call
		if err := json.Unmarshal(sc.Bytes(), &hist); err != nil {
			fmt.Fprintln(os.Stderr, "bad history:", err)
			os.Exit(2)
		}
		recs, p := l1.Replay(hist, *seed+int64(nh)*7919, !*noState)
		_ = enc.Encode(map[string]any{"k": "reset", "h": nh})
		for _, r := range recs {
			_ = enc.Encode(r)
			nouts += len(r.Outs)
		}
		if p != nil {
			npanic++
			_ = enc.Encode(map[string]any{"k": "panic", "what": fmt.Sprint(p)})
		}
		ncalls += len(recs)
		nh++
	}
	bw.Flush()
	fo.Close()
	st, _ := json.Marshal(map[string]int{"histories": nh, "calls": ncalls, "outs": nouts, "panics": npanic})
	fmt.Println(string(st))
}
