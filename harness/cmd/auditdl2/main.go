// auditdl2 replays abstract histories (TLC-generated, specs/Tracker.tla) through
// the real Auditd.Read - audit LOG LINES through the real parser, reassembler
// and coalescer, logins through the Logins channel - and writes the recorded
// trace for specs/TrackerTrace.tla (CheckState = FALSE).
package main

import (
	"bufio"
	"encoding/json"
	"flag"
	"fmt"
	"os"
	"strings"

	"github.com/metal-toolbox/audito-maldito/verifharness/l1"
)

func main() {
	in := flag.String("in", "", "histories (json lines)")
	out := flag.String("out", "", "trace (ndjson)")
	seed := flag.Int64("seed", 1, "seed")
	stride := flag.Int("stride", 1, "with -offset: handle only the histories whose index is offset modulo stride (sharding)")
	offset := flag.Int("offset", 0, "see -stride")
	flag.Parse()
	l1.InstallL2Hook()
	fi, err := os.Open(*in)
	must(err)
	fo, err := os.Create(*out)
	must(err)
	bw := bufio.NewWriterSize(fo, 1<<20)
	enc := json.NewEncoder(bw)
	sc := bufio.NewScanner(fi)
	sc.Buffer(make([]byte, 1<<20), 1<<28)
	nh, ncalls, nouts, nlines, nret := 0, 0, 0, 0, 0
	for sc.Scan() {
		if nh%*stride != *offset {
			nh++
			continue
		}
		var hist []l1.Call
		must(json.Unmarshal(sc.Bytes(), &hist))
		l := l1.NewL2(*seed+int64(nh)*7919, 0)
		must(enc.Encode(map[string]any{"k": "reset", "h": nh}))
		for _, c := range hist {
			if c.K == "tick" || c.K == "cleanS" || c.K == "cleanL" {
				continue
			}
			ok, err := l.Apply(c)
			if c.K == "audit" {
				// the reference for rendering is aucoalesce's view of the SAME records
				if res, args, have := l.RefAttrs(c.Tag); have {
					c.Res, c.Args = res, args
				}
			}
			if err != nil {
				if strings.HasPrefix(err.Error(), "hang:") {
					// the processor is stuck: an observation about the code under test (judged like a panic), not a
					// failure of the driver
					must(enc.Encode(map[string]any{"k": "panic", "what": err.Error()}))
					break
				}
				fmt.Fprintln(os.Stderr, "harness:", err)
				os.Exit(2)
			}
			r := l1.Rec{Call: c, Outs: l.W.Project(l.W.Enc.Take()), Err: !ok, Mut: l.W.Mutated()}
			if !ok && l.RetErr != nil {
				r.ErrS = l.RetErr.Error()
			}
			must(enc.Encode(r))
			nouts += len(r.Outs)
			nlines += len(l.Lines[c.Tag])
			ncalls++
			if !ok {
				nret++
				break
			}
		}
		if l.RetErr != nil && strings.HasPrefix(l.RetErr.Error(), "panic:") {
			must(enc.Encode(map[string]any{"k": "panic", "what": l.RetErr.Error()}))
		}
		l.Close()
		nh++
	}
	bw.Flush()
	fo.Close()
	st, _ := json.Marshal(map[string]int{"histories": nh, "calls": ncalls, "outs": nouts, "lines": nlines, "read_returned": nret})
	fmt.Println(string(st))
}

func must(err error) {
	if err != nil {
		fmt.Fprintln(os.Stderr, err)
		os.Exit(2)
	}
}
