// staleness: real-time runs of Auditd.Read for C16 (thorough tier): the second
// half of a login / LOGIN-record pair arrives `gap` seconds after the first,
// with the processor's own one-minute ticker doing the cleanup.  All runs go on
// concurrently (about three minutes in total).
package main

import (
	"bufio"
	"context"
	"encoding/json"
	"flag"
	"fmt"
	"math/rand"
	"os"
	"sync"
	"sync/atomic"
	"time"

	"github.com/metal-toolbox/auditevent"
	"go.uber.org/zap"

	"github.com/metal-toolbox/audito-maldito/internal/common"
	"github.com/metal-toolbox/audito-maldito/internal/health"
	"github.com/metal-toolbox/audito-maldito/processors/auditd"
)

type countEnc struct{ n atomic.Int64 }

func (e *countEnc) Encode(any) error { e.n.Add(1); return nil }

type Rec struct {
	ID      int    `json:"id"`
	Gap     int    `json:"gap"`
	Order   string `json:"order"`
	Delay   int    `json:"delay"`
	Want    int    `json:"want"`
	Emitted int    `json:"emitted"`
	Err     string `json:"err"`
}

func run(id, gap int, order string, delay int, filler bool) Rec {
	rec := Rec{ID: id, Gap: gap, Order: order, Delay: delay, Want: 2}
	enc := &countEnc{}
	audits := make(chan string, 16)
	logins := make(chan common.RemoteUserLogin)
	ctx, cancel := context.WithCancel(context.Background())
	defer cancel()
	a := auditd.Auditd{Audits: audits, Logins: logins, EventW: auditevent.NewAuditEventWriter(enc), Health: health.NewHealth()}
	done := make(chan error, 1)
	go func() { done <- a.Read(ctx) }()
	pid := 20000 + id
	ses := 700 + id
	loginRec := fmt.Sprintf("type=LOGIN msg=audit(1700000%03d.100:%d): pid=%d uid=0 old-auid=4294967295 auid=1000 tty=(none) old-ses=4294967295 ses=%d res=1", id, 50000+id*10, pid, ses)
	follow := fmt.Sprintf("type=USER_START msg=audit(1700000%03d.200:%d): pid=%d uid=0 auid=1000 ses=%d msg='op=PAM:session_open grantors=pam_unix acct=\"u\" exe=\"/usr/sbin/sshd\" hostname=127.0.0.1 addr=127.0.0.1 terminal=ssh res=success'", id, 50000+id*10+1, pid, ses)
	sendLogin := func() {
		evt := auditevent.NewAuditEvent("UserLogin", auditevent.EventSource{Type: "IP", Value: "10.0.0.1"}, "succeeded",
			map[string]string{"loggedAs": "u", "userID": "x", "pid": fmt.Sprint(pid)}, "sshd")
		select {
		case logins <- common.RemoteUserLogin{Source: evt, PID: pid, CredUserID: "x"}:
		case <-time.After(5 * time.Second):
			rec.Err = "login not taken"
		}
	}
	// unrelated logins keep arriving (other sshd processes) while the halves wait
	if filler {
		go func() {
			for k := 0; ; k++ {
				e2 := auditevent.NewAuditEvent("UserLogin", auditevent.EventSource{Type: "IP", Value: "10.9.9.9"}, "succeeded",
					map[string]string{"loggedAs": "filler", "userID": "f", "pid": fmt.Sprint(90000 + id*100 + k)}, "sshd")
				select {
				case logins <- common.RemoteUserLogin{Source: e2, PID: 90000 + id*100 + k, CredUserID: "f"}:
				case <-ctx.Done():
					return
				}
				select {
				case <-time.After(17 * time.Second):
				case <-ctx.Done():
					return
				}
			}
		}()
	}
	time.Sleep(time.Duration(delay) * time.Second) // phase of the arrivals relative to the ticker
	if order == "record-first" {
		audits <- loginRec
		time.Sleep(time.Duration(gap) * time.Second)
		sendLogin()
	} else {
		sendLogin()
		time.Sleep(time.Duration(gap) * time.Second)
		audits <- loginRec
	}
	time.Sleep(100 * time.Millisecond)
	audits <- follow
	time.Sleep(400 * time.Millisecond)
	select {
	case err := <-done:
		rec.Err = fmt.Sprint(err)
	default:
	}
	rec.Emitted = int(enc.n.Load())
	return rec
}

func main() {
	out := flag.String("out", "", "trace (ndjson)")
	seed := flag.Int64("seed", 1, "seed")
	flag.Parse()
	auditd.SetLogger(zap.NewNop().Sugar())
	r := rand.New(rand.NewSource(*seed))
	var recs []Rec
	var mu sync.Mutex
	var wg sync.WaitGroup
	id := 0
	for _, gap := range []int{3, 28, 55, 125, 170} {
		for _, order := range []string{"record-first", "login-first"} {
			id++
			wg.Add(1)
			go func(id, gap int, order string, delay int) {
				defer wg.Done()
				rc := run(id, gap, order, delay, id%2 == 0 || gap > 100)
				mu.Lock()
				recs = append(recs, rc)
				mu.Unlock()
			}(id, gap, order, r.Intn(30))
		}
	}
	// a quiet host: no other login while the halves wait (a cut-off that is refreshed by traffic only is a minute too
	// old here)
	for _, gap := range []int{125, 170} {
		for _, order := range []string{"record-first", "login-first"} {
			id++
			wg.Add(1)
			go func(id, gap int, order string, delay int) {
				defer wg.Done()
				rc := run(id, gap, order, delay, false)
				mu.Lock()
				recs = append(recs, rc)
				mu.Unlock()
			}(id, gap, order, r.Intn(30))
		}
	}
	wg.Wait()
	fo, err := os.Create(*out)
	if err != nil {
		fmt.Fprintln(os.Stderr, err)
		os.Exit(2)
	}
	bw := bufio.NewWriter(fo)
	enc := json.NewEncoder(bw)
	for _, rc := range recs {
		_ = enc.Encode(rc)
	}
	bw.Flush()
	fo.Close()
	fmt.Printf("{\"runs\":%d}\n", len(recs))
}
