// trackerconc explores the interleavings of small concurrent programs over the
// real sessionTracker (logins || audit events || cleanup, the goroutines of
// Auditd.Read) with the controlled scheduler, and records the distinct outcomes
// for validation against the sequential specification (specs/TrackerLin.tla).
package main

import (
	"bufio"
	"encoding/json"
	"flag"
	"fmt"
	"math/rand"
	"os"
	"runtime/pprof"
	"strconv"
	"strings"
	"sync"
	"sync/atomic"
	"time"

	"github.com/metal-toolbox/audito-maldito/verifharness/l1"
	"github.com/metal-toolbox/audito-maldito/verifharness/sched"
)

type Program struct {
	Name    string      `json:"name"`
	Threads [][]l1.Call `json:"threads"`
	Post    []l1.Call   `json:"post"`
}

type Outcome struct {
	K        string        `json:"k"`
	Prog     int           `json:"prog"`
	Name     string        `json:"name"`
	Threads  [][]l1.Call   `json:"threads"`
	Post     []l1.Call     `json:"post"`
	Outs     []l1.Out      `json:"outs"`
	St       *l1.StProj    `json:"st"`
	Errs     int           `json:"errs"`
	Deadlock bool          `json:"deadlock"`
	Hang     bool          `json:"hang"`
	Panic    string        `json:"panic"`
	Count    int           `json:"count"`
	Sched    []int         `json:"sched"`
	Trace    []sched.Event `json:"trace,omitempty"`
	// HB: real-time precedence observed in this execution. {ta, ia, tb, ib} (1-based) = the ia-th call of thread ta had
	// left the tracker (after-hook of its outermost method) before the ib-th call of thread tb was let into it
	// (before-hook granted), so every effect of the first precedes every effect of the second. Only the latest such
	// call per (thread, call) pair is listed; earlier ones follow from program order.
	HB [][4]int `json:"hb"`
}

// hbOf derives the precedence pairs from the scheduler's event log; nil (no constraint) when the log does not have
// exactly one outermost acquire/release interval per call.
func hbOf(tr []sched.Event, threads [][]l1.Call) [][4]int {
	n := len(threads)
	depth := make([]int, n)
	start := make([]int, n)
	iv := make([][][2]int, n)
	for idx, ev := range tr {
		if ev.T < 0 || ev.T >= n {
			return [][4]int{}
		}
		if ev.Phase == "acq" {
			if depth[ev.T] == 0 {
				start[ev.T] = idx
			}
			depth[ev.T]++
		} else {
			depth[ev.T]--
			if depth[ev.T] < 0 {
				return [][4]int{}
			}
			if depth[ev.T] == 0 {
				iv[ev.T] = append(iv[ev.T], [2]int{start[ev.T], idx})
			}
		}
	}
	for t := 0; t < n; t++ {
		if depth[t] != 0 || len(iv[t]) != len(threads[t]) {
			return [][4]int{}
		}
	}
	hb := [][4]int{}
	for tb := 0; tb < n; tb++ {
		for ib := range iv[tb] {
			for ta := 0; ta < n; ta++ {
				if ta == tb {
					continue
				}
				last := -1
				for ia := range iv[ta] {
					if iv[ta][ia][1] < iv[tb][ib][0] {
						last = ia
					}
				}
				if last >= 0 {
					hb = append(hb, [4]int{ta + 1, last + 1, tb + 1, ib + 1})
				}
			}
		}
	}
	return hb
}

func runOnce(p Program, seed int64, prefix []int, mode sched.Mode, rng *rand.Rand, maxPre int, free bool) (*Outcome, *sched.Exec) {
	w := l1.NewWorld(seed)
	var pm sync.Mutex
	panics := ""
	nerr := 0
	var fns []func()
	for _, th := range p.Threads {
		var calls []func() error
		for _, c := range th {
			calls = append(calls, w.Prepare(c))
		}
		fns = append(fns, func() {
			defer func() {
				if r := recover(); r != nil {
					pm.Lock()
					panics = fmt.Sprint(r)
					pm.Unlock()
				}
			}()
			for _, f := range calls {
				if err := f(); err != nil {
					pm.Lock()
					nerr++
					pm.Unlock()
				}
			}
		})
	}
	var post []func() error
	for _, c := range p.Post {
		post = append(post, w.Prepare(c))
	}
	var ex *sched.Exec
	freeHung := false
	if free {
		var wg sync.WaitGroup
		for _, f := range fns {
			wg.Add(1)
			f := f
			go func() { defer wg.Done(); f() }()
		}
		// free-running threads can deadlock for real: a watchdog instead of waiting for ever (the threads are left behind)
		fin := make(chan struct{})
		go func() { wg.Wait(); close(fin) }()
		select {
		case <-fin:
		case <-time.After(freeWait()):
			freeHangs.Add(1)
			freeHung = true
		}
	} else {
		w.Enc.Point = func() func() { return sched.Point(w.Enc, "Encode") }
		ex = sched.Run(fns, prefix, mode, rng, maxPre, func(e *sched.Exec) { e.Name(w.Enc, "enc") })
	}
	if p.Post == nil {
		p.Post = []l1.Call{}
	}
	if !freeHung && (ex == nil || (!ex.Deadlock && !ex.Hang)) {
		for _, f := range post {
			if err := f(); err != nil {
				pm.Lock()
				nerr++
				pm.Unlock()
			}
		}
	}
	pm.Lock()
	ne, pn := nerr, panics
	pm.Unlock()
	o := &Outcome{K: "outcome", Name: p.Name, Threads: p.Threads, Post: p.Post, Errs: ne, Panic: pn, Sched: []int{},
		St: &l1.StProj{Sess: []l1.SessProj{}, Wait: []l1.WaitProj{}}}
	if ex != nil {
		o.Deadlock, o.Hang = ex.Deadlock, ex.Hang
		o.Sched = ex.Taken
	}
	if freeHung {
		o.Hang = true
	}
	if !o.Deadlock && !o.Hang {
		o.Outs = w.Project(w.Enc.Take())
		o.St = w.Snapshot()
	}
	if o.Outs == nil {
		o.Outs = []l1.Out{}
	}
	o.HB = [][4]int{}
	if ex != nil && !o.Deadlock && !o.Hang && pn == "" {
		o.HB = hbOf(ex.Trace, p.Threads)
	}
	return o, ex
}

// confirm: a deadlock / hang verdict of the scheduler rests on "nothing moved for a while", which a badly overloaded
// machine can fake. A real one is a property of the schedule: the same schedule is executed again (twice at most) and
// the verdict stands only if it shows every time; otherwise the re-execution is what is recorded.
var unconfirmed atomic.Int64

func confirm(p Program, seed int64, rng *rand.Rand, o *Outcome, ex *sched.Exec) (*Outcome, *sched.Exec) {
	if ex == nil || !(o.Deadlock || o.Hang) {
		return o, ex
	}
	for k := 0; k < 2; k++ {
		o2, ex2 := runOnce(p, seed, ex.Taken, sched.First, rng, -1, false)
		if !(o2.Deadlock || o2.Hang) {
			unconfirmed.Add(1)
			return o2, ex2
		}
	}
	return o, ex
}

var freeHangs atomic.Int64

func freeWait() time.Duration {
	if freeHangs.Load() > 4 {
		return 200 * time.Millisecond
	}
	return 3 * time.Second
}

func key(o *Outcome) string {
	b, _ := json.Marshal([]any{o.Outs, o.St, o.Errs, o.Deadlock, o.Hang, o.Panic})
	return string(b)
}

func main() {
	in := flag.String("in", "", "programs (json lines)")
	out := flag.String("out", "", "outcomes (ndjson)")
	seed := flag.Int64("seed", 1, "seed")
	capN := flag.Int("cap", 200000, "max schedules per program for the exhaustive search")
	randN := flag.Int("random", 0, "additional seeded random schedules per program")
	maxPre := flag.Int("preempt", -1, "pre-emption bound for the exhaustive search (-1: unbounded)")
	budget := flag.Duration("budget", 0, "wall-clock budget per program for the exhaustive search (0: none)")
	schedule := flag.String("schedule", "", "replay: run every program once under exactly this schedule (comma separated choices)")
	hbCap := flag.Int("hbcap", 400, "distinct precedence relations kept per outcome")
	free := flag.Int("free", 0, "free-running repetitions per program (for -race builds); no scheduler")
	prof := flag.String("cpuprofile", "", "write a CPU profile")
	flag.Parse()
	if *prof != "" {
		pf, err := os.Create(*prof)
		must(err)
		must(pprof.StartCPUProfile(pf))
		defer pprof.StopCPUProfile()
	}

	fi, err := os.Open(*in)
	must(err)
	fo, err := os.Create(*out)
	must(err)
	bw := bufio.NewWriter(fo)
	enc := json.NewEncoder(bw)
	sc := bufio.NewScanner(fi)
	sc.Buffer(make([]byte, 1<<20), 1<<26)
	total, progs := 0, 0
	stats := []map[string]any{}
	rng := rand.New(rand.NewSource(*seed))
	for sc.Scan() {
		var p Program
		must(json.Unmarshal(sc.Bytes(), &p))
		seen := map[string]*Outcome{}
		n := 0
		complete := false
		variants := map[string]int{}
		record := func(o *Outcome, ex *sched.Exec) {
			// an outcome is kept once per distinct precedence relation (at most hbCap of them, the rest without one)
			base := key(o)
			hk, _ := json.Marshal(o.HB)
			if _, ok := seen[base+string(hk)]; !ok && len(o.HB) > 0 {
				if variants[base] >= *hbCap {
					o.HB = [][4]int{}
					hk = []byte("[]")
				} else {
					variants[base]++
				}
			}
			k := base + string(hk)
			if s, ok := seen[k]; ok {
				s.Count++
				return
			}
			o.Count = 1
			o.Prog = progs
			if ex != nil && len(seen) < 3 {
				o.Trace = ex.Trace
			}
			seen[k] = o
		}
		if *schedule != "" {
			var prefix []int
			for _, f := range strings.Split(*schedule, ",") {
				if v, err := strconv.Atoi(strings.TrimSpace(f)); err == nil {
					prefix = append(prefix, v)
				}
			}
			// the seed of an execution is seed + its number in the search; the concretisation does not depend on it
			o, ex := runOnce(p, *seed, prefix, sched.First, rng, *maxPre, false)
			record(o, ex)
			n++
		} else if *free > 0 {
			for i := 0; i < *free; i++ {
				o, _ := runOnce(p, *seed+int64(i), nil, sched.First, rng, -1, true)
				record(o, nil)
				n++
			}
		} else {
			prefix := []int{}
			t0 := time.Now()
			for n < *capN && (*budget == 0 || time.Since(t0) < *budget) {
				o, ex := runOnce(p, *seed+int64(n), prefix, sched.First, rng, *maxPre, false)
				o, ex = confirm(p, *seed+int64(n), rng, o, ex)
				record(o, ex)
				n++
				prefix = sched.Next(ex.Taken, ex.Alts)
				if prefix == nil {
					complete = true
					break
				}
			}
			for i := 0; i < *randN; i++ {
				o, ex := runOnce(p, *seed+int64(n), nil, sched.Random, rng, -1, false)
				o, ex = confirm(p, *seed+int64(n), rng, o, ex)
				record(o, ex)
				n++
			}
		}
		for _, o := range seen {
			must(enc.Encode(o))
		}
		stats = append(stats, map[string]any{"name": p.Name, "schedules": n, "exhaustive": complete, "outcomes": len(seen)})
		total += n
		progs++
	}
	bw.Flush()
	fo.Close()
	b, _ := json.Marshal(map[string]any{"programs": progs, "schedules": total, "per_program": stats,
		"deadlock_verdicts_not_reproduced": unconfirmed.Load()})
	fmt.Println(string(b))
}

func must(err error) {
	if err != nil {
		fmt.Fprintln(os.Stderr, err)
		os.Exit(2)
	}
}
