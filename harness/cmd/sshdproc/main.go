// sshdproc realises every environment script of specs/SshdProc.tla (event
// write ok/fail, correlator ready from the start / only once the worker is
// blocked / never, context cancelled never / before / while blocked) against
// the real sshd processor and records what happened, for SshdProcTrace.tla.
package main

import (
	"bufio"
	"context"
	"encoding/json"
	"errors"
	"flag"
	"fmt"
	"math/rand"
	"os"
	"strconv"
	"sync"
	"sync/atomic"
	"time"

	"github.com/metal-toolbox/auditevent"
	"github.com/prometheus/client_golang/prometheus"

	"github.com/metal-toolbox/audito-maldito/internal/common"
	"github.com/metal-toolbox/audito-maldito/internal/metrics"
	"github.com/metal-toolbox/audito-maldito/processors/sshd"
	"github.com/metal-toolbox/audito-maldito/verifharness/sshdvec"
)

type Scenario struct {
	Kind       string `json:"kind"`
	Wok        bool   `json:"wok"`
	RcvWhen    string `json:"rcvWhen"`
	CancelWhen string `json:"cancelWhen"`
}

type logger struct {
	mu  sync.Mutex
	enc *json.Encoder
	n   int
}

func (l *logger) log(m map[string]any) {
	l.mu.Lock()
	defer l.mu.Unlock()
	_ = l.enc.Encode(m)
	l.n++
}

var errInjected = errors.New("verif: injected write failure")

type encoder struct {
	lg      *logger
	wok     bool
	mu      sync.Mutex
	ptrs    []*auditevent.AuditEvent
	written chan struct{}
}

func (e *encoder) Encode(v any) error {
	e.mu.Lock()
	p, _ := v.(*auditevent.AuditEvent)
	if e.wok {
		e.ptrs = append(e.ptrs, p)
	}
	e.mu.Unlock()
	e.lg.log(map[string]any{"k": "write", "ok": e.wok})
	select {
	case e.written <- struct{}{}:
	default:
	}
	if !e.wok {
		return errInjected
	}
	return nil
}

func main() {
	scen := flag.String("scen", "", "scenarios (json lines)")
	vecs := flag.String("vectors", "", "vectors (json lines)")
	out := flag.String("out", "", "trace (ndjson)")
	seed := flag.Int64("seed", 1, "seed")
	reps := flag.Int("reps", 2, "lines per scenario")
	flag.Parse()

	var scs []Scenario
	readLines(*scen, func(b []byte) {
		var s Scenario
		must(json.Unmarshal(b, &s))
		scs = append(scs, s)
	})
	pools := map[string][]sshdvec.Vector{}
	readLines(*vecs, func(b []byte) {
		var v sshdvec.Vector
		must(json.Unmarshal(b, &v))
		switch {
		case v.Fam == "grammar" && v.Emits && string(v.Login) != "" && json.Valid(v.Login):
			var l struct {
				Fwd bool `json:"fwd"`
			}
			_ = json.Unmarshal(v.Login, &l)
			if l.Fwd {
				pools["accepted"] = append(pools["accepted"], v)
			} else {
				pools["failed"] = append(pools["failed"], v)
			}
		case v.Fam == "mutant":
			pools["mutant"] = append(pools["mutant"], v)
		}
	})
	fo, err := os.Create(*out)
	must(err)
	bw := bufio.NewWriter(fo)
	enc := json.NewEncoder(bw)
	enc.SetEscapeHTML(false)
	lg := &logger{enc: enc}
	r := rand.New(rand.NewSource(*seed))

	// every scenario is run with every message FORM of its kind (a defect may sit in one variant only)
	forms := map[string][]string{}
	for kind, vs := range pools {
		seen := map[string]bool{}
		for _, v := range vs {
			if !seen[v.Form] {
				seen[v.Form] = true
				forms[kind] = append(forms[kind], v.Form)
			}
		}
	}
	idx := 0
	for _, sc := range scs {
		kind := sc.Kind
		if kind == "unrecognised" {
			kind = "mutant"
		}
		fl := forms[kind]
		if kind == "mutant" {
			fl = []string{""}
		}
		for k := 0; k < *reps; k++ {
			for _, f := range fl {
				runOne(lg, r, sc, pools, idx, f)
				idx++
			}
		}
	}
	bw.Flush()
	fo.Close()
	fmt.Printf("{\"scenarios\":%d,\"runs\":%d,\"events\":%d}\n", len(scs), idx, lg.n)
}

func pickLine(r *rand.Rand, sc Scenario, pools map[string][]sshdvec.Vector, form string) (pid, line, cred string) {
	for tries := 0; ; tries++ {
		var v sshdvec.Vector
		switch sc.Kind {
		case "accepted":
			v = pools["accepted"][r.Intn(len(pools["accepted"]))]
		case "failed":
			v = pools["failed"][r.Intn(len(pools["failed"]))]
		default:
			v = pools["mutant"][r.Intn(len(pools["mutant"]))]
		}
		if form != "" && v.Form != form && tries < 100000 {
			continue
		}
		s := sshdvec.NewSubst(r, &v)
		pid = sshdvec.Gen(r, "<pid.pos>")
		s["<PID>"] = pid
		line = s.Plain(v.Line)
		if sc.Kind == "unrecognised" {
			// keep only lines the real processor does not react to at all
			o := sshdvec.Deliver(sshdvec.Direct, pid, line, 0)
			if len(o.Events) != 0 || len(o.Ctr) != 0 {
				if tries < 1000 {
					continue
				}
				line = "pam_unix(sshd:session): session opened for user x"
			}
			return pid, line, ""
		}
		var l struct {
			Cred string `json:"cred"`
		}
		_ = json.Unmarshal(s.JSONText(v.Login), &l)
		return pid, line, l.Cred
	}
}

// slow counts waits that ran into their time-out (a worker that neither wrote nor returned, or did not return after
// its context was cancelled); once that has been seen a few times the generous waits are shortened.
var slow atomic.Int64

func patience(d time.Duration) <-chan time.Time {
	if slow.Load() > 6 {
		return time.After(200 * time.Millisecond)
	}
	return time.After(d)
}

func runOne(lg *logger, r *rand.Rand, sc Scenario, pools map[string][]sshdvec.Vector, idx int, form string) {
	pid, line, cred := pickLine(r, sc, pools, form)
	lg.log(map[string]any{"k": "reset", "idx": idx, "sc": sc, "pid": pid, "line": line, "form": form})

	e := &encoder{lg: lg, wok: sc.Wok, written: make(chan struct{}, 4)}
	logins := make(chan common.RemoteUserLogin)
	ctx, cancel := context.WithCancel(context.Background())
	defer cancel()
	reg := prometheus.NewRegistry()
	pm := metrics.NewPrometheusMetricsProviderForRegisterer(reg)
	proc := sshd.NewSshdProcessor(ctx, logins, sshdvec.NodeName, sshdvec.MachineID, auditevent.NewAuditEventWriter(e), pm)

	stopRecv := make(chan struct{})
	recvDone := make(chan struct{})
	startReceiver := func() {
		go func() {
			defer close(recvDone)
			for {
				select {
				case l := <-logins:
					e.mu.Lock()
					same := false
					for _, p := range e.ptrs {
						if p != nil && p == l.Source {
							same = true
						}
					}
					after := len(e.ptrs) > 0
					e.mu.Unlock()
					want, _ := strconv.Atoi(pid)
					lg.log(map[string]any{"k": "recv", "same": same, "pidok": l.PID == want, "credok": l.CredUserID == cred,
						"afterwrite": after, "pid": l.PID, "cred": l.CredUserID})
				case <-stopRecv:
					return
				}
			}
		}()
	}
	receiverStarted := false
	if sc.RcvWhen == "start" {
		startReceiver()
		receiverStarted = true
	}
	if sc.CancelWhen == "before" {
		cancel()
	}

	type result struct {
		err   error
		panic any
	}
	done := make(chan result, 1)
	lg.log(map[string]any{"k": "start"})
	go func() {
		var res result
		defer func() {
			if p := recover(); p != nil {
				res.panic = p
			}
			done <- res
		}()
		res.err = proc.ProcessSshdLogEntry(ctx, sshd.SshdLogEntry{PID: pid, Message: line})
	}()

	logReturn := func(res result) {
		time.Sleep(3 * time.Millisecond) // let a receiver that completed the rendezvous log first
		if res.panic != nil {
			lg.log(map[string]any{"k": "panic", "what": fmt.Sprint(res.panic)})
			return
		}
		// movement of the remote-logins counter during the call (fresh registry): total and the outcome label
		total, label := 0, ""
		for _, c := range sshdvec.Counters(reg) {
			total += c.N
			label = c.Outcome
		}
		lg.log(map[string]any{"k": "return", "err": res.err != nil, "wraps": errors.Is(res.err, errInjected),
			"ctr": total, "ctrlabel": label})
	}

	returned := false
	wait := func(d time.Duration) bool {
		if returned {
			return true
		}
		select {
		case res := <-done:
			logReturn(res)
			returned = true
			return true
		case <-time.After(d):
			return false
		}
	}

	// phase 1: up to the write (or an early return)
	select {
	case <-e.written:
	case res := <-done:
		logReturn(res)
		returned = true
	case <-patience(3 * time.Second):
		slow.Add(1)
	}
	// phase 2: the hand-off
	if !wait(40 * time.Millisecond) {
		// the worker is blocked in the hand-off
		acts := []string{}
		if sc.CancelWhen == "blocked" {
			acts = append(acts, "cancel")
		}
		if sc.RcvWhen == "blocked" {
			acts = append(acts, "ready")
		}
		r.Shuffle(len(acts), func(i, j int) { acts[i], acts[j] = acts[j], acts[i] })
		for _, a := range acts {
			if returned {
				break
			}
			lg.log(map[string]any{"k": a})
			if a == "cancel" {
				cancel()
			} else {
				startReceiver()
				receiverStarted = true
			}
			wait(20 * time.Millisecond)
		}
		if !wait(300 * time.Millisecond) {
			lg.log(map[string]any{"k": "blocked"})
		}
	}
	lg.log(map[string]any{"k": "end"})
	// clean up
	cancel()
	if !returned {
		select {
		case <-done:
		case <-patience(2 * time.Second):
			slow.Add(1)
		}
	}
	if receiverStarted {
		close(stopRecv)
		<-recvDone
	}
}

func readLines(path string, f func([]byte)) {
	fi, err := os.Open(path)
	must(err)
	defer fi.Close()
	sc := bufio.NewScanner(fi)
	sc.Buffer(make([]byte, 1<<20), 1<<26)
	for sc.Scan() {
		f(append([]byte(nil), sc.Bytes()...))
	}
}

func must(err error) {
	if err != nil {
		fmt.Fprintln(os.Stderr, err)
		os.Exit(2)
	}
}
