// l2stress: the two halves of a session - the sshd login and the kernel LOGIN record - are handed to the real
// Auditd.Read at the same moment, from two goroutines, as the daemon's two pipelines do (the login through the Logins
// channel into Read's loop, the record through the Audits channel into the parser / reassembler goroutines).  Not a
// controlled schedule: the OS decides; many repetitions.  Whatever the interleaving, once both halves and one more
// event are in, the session's events have been emitted exactly once with the login's identity (C03 through the
// daemon's own wiring of the correlator).  The trace is judged by TrackerTrace (deferred, as for the daemon's output).
package main

import (
	"bufio"
	"encoding/json"
	"flag"
	"fmt"
	"os"
	"sync"
	"time"

	"github.com/metal-toolbox/audito-maldito/verifharness/l1"
)

func main() {
	out := flag.String("out", "", "trace (ndjson)")
	seed := flag.Int64("seed", 1, "seed")
	rounds := flag.Int("rounds", 200, "Read instances (six sessions each)")
	flag.Parse()
	l1.InstallL2Hook()
	fo, err := os.Create(*out)
	must(err)
	bw := bufio.NewWriterSize(fo, 1<<20)
	enc := json.NewEncoder(bw)
	pairs, emitted := 0, 0
	sessions := []string{"s1", "s2", "s3", "s4", "s5", "s6"}
	for n := 0; n < *rounds; n++ {
		l := l1.NewL2(*seed+int64(n)*7919, 0)
		must(enc.Encode(map[string]any{"k": "reset", "h": n}))
		var calls []l1.Call
		alive := true
		for i, s := range sessions {
			if !alive {
				break
			}
			p := i + 1
			tag := 3*i + 1
			lc := l1.Call{K: "login", ID: p, Pid: p}
			ac := l1.Call{K: "audit", Tag: tag, Sess: s, Typ: "LOGIN", Pid: p, Res: "success"}
			g := l.Render(ac)
			for len(l.LoginDone()) > 0 {
				<-l.LoginDone()
			}
			var wg sync.WaitGroup
			start := make(chan struct{})
			okL, okA := true, true
			wg.Add(2)
			go func() { defer wg.Done(); <-start; okL = l.SendLoginAsync(p, p) }()
			go func() {
				defer wg.Done()
				<-start
				for _, ln := range g.Lines {
					if !l.SendRaw(ln) {
						okA = false
					}
				}
			}()
			close(start)
			wg.Wait()
			pairs++
			// both halves are in once the parser is back in its loop and Read's loop has finished RemoteLogin (the
			// hook at the end of the method reports it; a processor that never gets there shows in what follows)
			alive = okL && okA && l.Barrier()
			if alive {
				select {
				case <-l.LoginDone():
				case <-time.After(2 * time.Second):
				}
			}
			calls = append(calls, lc, ac)
			if !alive {
				break
			}
			oc := l1.Call{K: "audit", Tag: tag + 1, Sess: s, Typ: "OTHER", Res: "success"}
			ok, _ := l.Apply(oc)
			alive = ok
			calls = append(calls, oc)
		}
		// one more round trip through Read's loop so that the last RemoteLogin has certainly finished
		if alive {
			l.Apply(l1.Call{K: "audit", Tag: 90, Sess: "unset", Typ: "OTHER", Res: "success"})
			calls = append(calls, l1.Call{K: "audit", Tag: 90, Sess: "unset", Typ: "OTHER", Res: "success"})
		}
		for _, c := range calls {
			if c.K == "audit" {
				if res, args, have := l.RefAttrs(c.Tag); have {
					c.Res, c.Args = res, args
				}
			}
			b, _ := json.Marshal(l1.Rec{Call: c, Outs: []l1.Out{}})
			var m map[string]any
			_ = json.Unmarshal(b, &m)
			m["defer"] = true
			must(enc.Encode(m))
		}
		outs := l.W.Project(l.W.Enc.Take())
		if outs == nil {
			outs = []l1.Out{}
		}
		emitted += len(outs)
		must(enc.Encode(map[string]any{"k": "outs", "outs": outs, "err": !alive, "mut": false}))
		l.Close()
	}
	bw.Flush()
	fo.Close()
	fmt.Printf("{\"rounds\":%d,\"pairs\":%d,\"emitted\":%d}\n", *rounds, pairs, emitted)
}

func must(err error) {
	if err != nil {
		fmt.Fprintln(os.Stderr, err)
		os.Exit(2)
	}
}
