// framing realises every scenario of specs/Framing.tla (stream over
// {x, b, l, d}, cut into write calls, call-back error at record k) through a
// REAL FIFO and the real NamedPipeIngester.Ingest, and records the call-back
// arguments (decoded back to stream positions) and the return value.
package main

import (
	"bufio"
	"bytes"
	"context"
	"encoding/json"
	"errors"
	"flag"
	"fmt"
	"io"
	"math/rand"
	"os"
	"path/filepath"
	"sync"
	"sync/atomic"
	"syscall"
	"time"

	"go.uber.org/zap"
	"golang.org/x/sys/unix"

	"github.com/metal-toolbox/audito-maldito/ingesters/namedpipe"
	"github.com/metal-toolbox/audito-maldito/internal/health"
)

// hangs counts scenarios in which Ingest did not return after the writer had closed the pipe; once that has been
// seen a few times the (generous) wait is shortened: the behaviour is established, the run should not take an hour.
var hangs atomic.Int64

func hangWait() time.Duration {
	if hangs.Load() > 8 {
		return 150 * time.Millisecond
	}
	return 3 * time.Second
}

type Scenario struct {
	Stream []string `json:"stream"`
	Cuts   []int    `json:"cuts"`
	ErrAt  int      `json:"errAt"`
	Pause  int      `json:"pause"` // ms of silence after every write call
	SlowCB int      `json:"slowcb"` // ms the call-back takes (the consumer is slower than the writer)
}

type Rec struct {
	ID     int      `json:"id"`
	Stream []string `json:"stream"`
	Cuts   []int    `json:"cuts"`
	ErrAt  int      `json:"errAt"`
	Pause  int      `json:"pause"`
	SlowCB int      `json:"slowcb"`
	Calls  [][]int  `json:"calls"`
	Ret    string   `json:"ret"`
	Same   bool     `json:"same"`
	Late   int      `json:"late"`
	Delim  int      `json:"delim"`
	RetS   string   `json:"rets"`
}

var errInjected = errors.New("verif: injected call-back error")

func token(r *rand.Rand, sym string, delim byte) []byte {
	pick := func(n int, binary bool) []byte {
		b := make([]byte, n)
		for i := range b {
			for {
				var c byte
				if binary {
					c = byte(r.Intn(256))
				} else {
					c = byte(33 + r.Intn(94))
				}
				if c != delim {
					b[i] = c
					break
				}
			}
		}
		return b
	}
	switch sym {
	case "x":
		return pick(1+r.Intn(3), false)
	case "b":
		t := pick(2+r.Intn(4), true)
		for {
			c := []byte{0x00, 0xff, 0xfe, 0x80}[r.Intn(4)]
			if c != delim {
				t[0] = c
				break
			}
		}
		return t
	case "l":
		if r.Intn(12) == 0 { // now and then longer than a pipe buffer and than the usual 64 KiB token limits
			return pick(66000+r.Intn(80000), r.Intn(2) == 0)
		}
		return pick(4097+r.Intn(9000), r.Intn(2) == 0)
	}
	return []byte{delim}
}

func decode(arg []byte, toks [][]byte) []int {
	out := []int{}
	p := 0
	for p < len(arg) {
		found := -1
		for i, t := range toks {
			if len(t) <= len(arg)-p && bytes.Equal(arg[p:p+len(t)], t) {
				// prefer the longest match
				if found < 0 || len(t) > len(toks[found]) {
					found = i
				}
			}
		}
		if found < 0 {
			out = append(out, -1)
			return out
		}
		out = append(out, found+1)
		p += len(toks[found])
	}
	return out
}

func runOne(dir string, id int, sc Scenario, seed int64) Rec {
	r := rand.New(rand.NewSource(seed))
	delim := byte('\n')
	if r.Intn(4) == 0 {
		delim = []byte{0, ';', 0xff}[r.Intn(3)]
	}
	rec := Rec{ID: id, Stream: sc.Stream, Cuts: sc.Cuts, ErrAt: sc.ErrAt, Pause: sc.Pause, SlowCB: sc.SlowCB, Calls: [][]int{}, Delim: int(delim)}
	if rec.Cuts == nil {
		rec.Cuts = []int{}
	}
	if rec.Stream == nil {
		rec.Stream = []string{}
	}
	// distinct tokens per position (so that positions can be recovered from the bytes)
	toks := make([][]byte, len(sc.Stream))
	for i, s := range sc.Stream {
		for {
			toks[i] = token(r, s, delim)
			dup := false
			for j := 0; j < i; j++ {
				if s != "d" && (bytes.HasPrefix(toks[j], toks[i]) || bytes.HasPrefix(toks[i], toks[j])) {
					dup = true
				}
			}
			if !dup {
				break
			}
		}
	}
	path := filepath.Join(dir, fmt.Sprintf("fifo-%d", id))
	if err := syscall.Mkfifo(path, 0o600); err != nil {
		rec.Ret = "harness-error"
		rec.RetS = err.Error()
		return rec
	}
	defer os.Remove(path)
	ing := namedpipe.NewNamedPipeIngester(zap.NewNop().Sugar(), health.NewHealth())
	var mu sync.Mutex
	var returned atomic.Bool
	ncalls := 0
	// positions of delimiters decode ambiguously (all equal): map them by order of appearance
	cb := func(_ context.Context, s string) error {
		mu.Lock()
		defer mu.Unlock()
		if returned.Load() {
			rec.Late++
		}
		ncalls++
		rec.Calls = append(rec.Calls, decodeWithDelims([]byte(s), toks, sc.Stream, delim, rec.Calls))
		if ncalls == sc.ErrAt {
			return errInjected
		}
		if sc.SlowCB > 0 {
			mu.Unlock()
			time.Sleep(time.Duration(sc.SlowCB) * time.Millisecond)
			mu.Lock()
		}
		return nil
	}
	done := make(chan error, 1)
	ctx, cancel := context.WithCancel(context.Background())
	defer cancel()
	go func() {
		err := ing.Ingest(ctx, path, delim, cb)
		returned.Store(true)
		done <- err
	}()
	w, err := os.OpenFile(path, os.O_WRONLY, 0)
	if err != nil {
		rec.Ret = "harness-error"
		rec.RetS = err.Error()
		return rec
	}
	fd := int(w.Fd())
	var ingErr error
	finished := false
	start := 0
	bounds := append(append([]int{}, sc.Cuts...), len(sc.Stream))
	for _, b := range bounds {
		if b <= start {
			continue
		}
		var chunk []byte
		for i := start; i < b; i++ {
			chunk = append(chunk, toks[i]...)
		}
		start = b
		if _, err := w.Write(chunk); err != nil {
			break // reader gone (EPIPE)
		}
		// wait until the reader drained the pipe (no sleeps: FIONREAD on the write end)
		deadline := time.Now().Add(3 * time.Second)
		for {
			n, err := unix.IoctlGetInt(fd, unix.TIOCINQ)
			if err != nil || n == 0 {
				break
			}
			select {
			case ingErr = <-done:
				finished = true
			default:
			}
			if finished || time.Now().After(deadline) {
				break
			}
			time.Sleep(20 * time.Microsecond)
		}
		if finished {
			break
		}
		if sc.Pause > 0 && b < len(sc.Stream) {
			time.Sleep(time.Duration(sc.Pause) * time.Millisecond)
		}
	}
	w.Close()
	if !finished {
		select {
		case ingErr = <-done:
		case <-time.After(hangWait()):
			hangs.Add(1)
			rec.Ret = "hang"
			cancel()
			return rec
		}
	}
	time.Sleep(200 * time.Microsecond)
	mu.Lock()
	defer mu.Unlock()
	switch {
	case ingErr == nil:
		rec.Ret = "nil"
	case errors.Is(ingErr, io.EOF):
		rec.Ret = "eof"
	case errors.Is(ingErr, errInjected):
		rec.Ret = "cb"
		rec.Same = ingErr == errInjected
	default:
		rec.Ret = "other"
	}
	if ingErr != nil {
		rec.RetS = ingErr.Error()
	}
	return rec
}

// decodeWithDelims decodes a call-back argument to stream positions; the k-th
// delimiter byte seen overall is the k-th "d" position of the stream.
func decodeWithDelims(arg []byte, toks [][]byte, stream []string, delim byte, prev [][]int) []int {
	dpos := []int{}
	for i, s := range stream {
		if s == "d" {
			dpos = append(dpos, i+1)
		}
	}
	used := 0
	for _, c := range prev {
		for _, p := range c {
			for _, d := range dpos {
				if p == d {
					used++
				}
			}
		}
	}
	nd := make([][]byte, len(toks))
	for i := range toks {
		if stream[i] != "d" {
			nd[i] = toks[i]
		} else {
			nd[i] = []byte{} // never matched by decode()
		}
	}
	out := []int{}
	p := 0
	for p < len(arg) {
		if arg[p] == delim {
			if used < len(dpos) {
				out = append(out, dpos[used])
			} else {
				out = append(out, -2)
			}
			used++
			p++
			continue
		}
		found := -1
		for i, t := range nd {
			if len(t) > 0 && len(t) <= len(arg)-p && bytes.Equal(arg[p:p+len(t)], t) {
				if found < 0 || len(t) > len(nd[found]) {
					found = i
				}
			}
		}
		if found < 0 {
			return append(out, -1)
		}
		out = append(out, found+1)
		p += len(nd[found])
	}
	return out
}

func main() {
	in := flag.String("in", "", "scenarios (json lines)")
	out := flag.String("out", "", "trace (ndjson)")
	dir := flag.String("dir", "", "directory for the FIFOs")
	seed := flag.Int64("seed", 1, "seed")
	workers := flag.Int("workers", 8, "parallel scenarios")
	flag.Parse()
	var scs []Scenario
	fi, err := os.Open(*in)
	must(err)
	s := bufio.NewScanner(fi)
	s.Buffer(make([]byte, 1<<20), 1<<26)
	for s.Scan() {
		var sc Scenario
		must(json.Unmarshal(s.Bytes(), &sc))
		scs = append(scs, sc)
	}
	recs := make([]Rec, len(scs))
	var wg sync.WaitGroup
	ch := make(chan int)
	for k := 0; k < *workers; k++ {
		wg.Add(1)
		go func() {
			defer wg.Done()
			for i := range ch {
				recs[i] = runOne(*dir, i, scs[i], *seed*1000003+int64(i))
			}
		}()
	}
	for i := range scs {
		ch <- i
	}
	close(ch)
	wg.Wait()
	fo, err := os.Create(*out)
	must(err)
	bw := bufio.NewWriter(fo)
	enc := json.NewEncoder(bw)
	ncalls := 0
	for _, r := range recs {
		must(enc.Encode(r))
		ncalls += len(r.Calls)
	}
	bw.Flush()
	fo.Close()
	fmt.Printf("{\"scenarios\":%d,\"callbacks\":%d}\n", len(recs), ncalls)
}

func must(err error) {
	if err != nil {
		fmt.Fprintln(os.Stderr, err)
		os.Exit(2)
	}
}
