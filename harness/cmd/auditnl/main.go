// auditnl: C07, audit half - every generated audit record line must parse to the
// same audit message with and without its trailing newline (the pipe delivers it
// with the newline).  One record per line for specs/SshdTrace.tla.
package main

import (
	"bufio"
	"encoding/json"
	"flag"
	"fmt"
	"math/rand"
	"os"
	"reflect"

	"github.com/elastic/go-libaudit/v2/auparse"

	"github.com/metal-toolbox/audito-maldito/verifharness/auditgen"
)

func main() {
	out := flag.String("out", "", "trace (ndjson)")
	seed := flag.Int64("seed", 1, "seed")
	n := flag.Int("n", 400, "event groups")
	flag.Parse()
	r := rand.New(rand.NewSource(*seed))
	g := auditgen.New(r)
	fo, err := os.Create(*out)
	if err != nil {
		fmt.Fprintln(os.Stderr, err)
		os.Exit(2)
	}
	bw := bufio.NewWriter(fo)
	enc := json.NewEncoder(bw)
	id := 0
	for tag := 1; tag <= *n; tag++ {
		e := auditgen.Event{Tag: tag, Sess: []string{"499", "unset", "", "12"}[r.Intn(4)],
			Typ: []string{"LOGIN", "CRED_DISP", "OTHER", "OTHER"}[r.Intn(4)], Pid: fmt.Sprint(1 + r.Intn(99999)),
			Res: []string{"success", "fail", "unknown"}[r.Intn(3)], Args: r.Intn(2) == 0}
		for _, ln := range g.Lines(e).Lines {
			a, e1 := auparse.ParseLogLine(ln)
			b, e2 := auparse.ParseLogLine(ln + "\n")
			same := e1 == nil && e2 == nil
			if same {
				da, _ := a.Data()
				db, _ := b.Data()
				same = a.RecordType == b.RecordType && a.Sequence == b.Sequence && a.Timestamp.Equal(b.Timestamp) &&
					reflect.DeepEqual(da, db) && reflect.DeepEqual(a.ToMapStr(), b.ToMapStr())
			}
			_ = enc.Encode(map[string]any{"k": "auditnl", "vec": id, "conc": 0, "line": ln, "same": same,
				"err1": fmt.Sprint(e1), "err2": fmt.Sprint(e2)})
			id++
		}
	}
	bw.Flush()
	fo.Close()
	fmt.Printf("{\"lines\":%d}\n", id)
}
