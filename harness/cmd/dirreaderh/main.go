// dirreaderh replays the scenarios of specs/DirReader.tla (initial directory
// contents + a sequence of append / partial append / complete / rotate /
// truncate / create operations, each followed by its file-system events and
// processed before the next change) against the real LogDirReader over an
// in-memory file system with os.File seek semantics, and - for the initial
// ordering - against real files through StartLogDirReader/os.ReadDir.
package main

import (
	"bufio"
	"context"
	"encoding/json"
	"flag"
	"fmt"
	"io"
	"io/fs"
	"math/rand"
	"os"
	"path/filepath"
	"sort"
	"strconv"
	"strings"
	"sync"
	"sync/atomic"
	"time"

	"github.com/fsnotify/fsnotify"

	"github.com/metal-toolbox/audito-maldito/processors/auditd/dirreader"
)

type InitDef struct {
	Rot     []int `json:"rot"`
	Live    int   `json:"live"`
	Partial int   `json:"partial"`
	HasLive bool  `json:"haslive"`
}

type Op struct {
	Op  string `json:"op"`
	Tok int    `json:"tok,omitempty"`
}

type Scenario struct {
	Init int  `json:"init"`
	Ops  []Op `json:"ops"`
}

// ---- in-memory file system ------------------------------------------------
type memFS struct {
	mu    sync.Mutex
	files map[string][]byte
}

type memFile struct {
	fs   *memFS
	path string
	pos  int64
}

type memInfo struct {
	name string
	size int64
}

func (i memInfo) Name() string       { return i.name }
func (i memInfo) Size() int64        { return i.size }
func (i memInfo) Mode() fs.FileMode  { return 0o600 }
func (i memInfo) ModTime() time.Time { return time.Time{} }
func (i memInfo) IsDir() bool        { return false }
func (i memInfo) Sys() any           { return nil }

func (m *memFS) Open(p string) (dirreader.VerifFile, error) {
	m.mu.Lock()
	defer m.mu.Unlock()
	if _, ok := m.files[p]; !ok {
		return nil, &fs.PathError{Op: "open", Path: p, Err: fs.ErrNotExist}
	}
	return &memFile{fs: m, path: p}, nil
}

func (f *memFile) Stat() (fs.FileInfo, error) {
	f.fs.mu.Lock()
	defer f.fs.mu.Unlock()
	d, ok := f.fs.files[f.path]
	if !ok {
		return nil, fs.ErrNotExist
	}
	return memInfo{name: filepath.Base(f.path), size: int64(len(d))}, nil
}

func (f *memFile) Read(p []byte) (int, error) {
	f.fs.mu.Lock()
	defer f.fs.mu.Unlock()
	d := f.fs.files[f.path]
	if f.pos >= int64(len(d)) {
		return 0, io.EOF
	}
	n := copy(p, d[f.pos:])
	f.pos += int64(n)
	return n, nil
}

// Seek has os.File semantics: any non-negative offset is accepted.
func (f *memFile) Seek(off int64, whence int) (int64, error) {
	f.fs.mu.Lock()
	defer f.fs.mu.Unlock()
	switch whence {
	case io.SeekStart:
		f.pos = off
	case io.SeekCurrent:
		f.pos += off
	case io.SeekEnd:
		f.pos = int64(len(f.fs.files[f.path])) + off
	}
	if f.pos < 0 {
		f.pos = 0
		return 0, fmt.Errorf("negative position")
	}
	return f.pos, nil
}

func (f *memFile) Close() error { return nil }

type dirEntry struct{ name string }

func (d dirEntry) Name() string               { return d.name }
func (d dirEntry) IsDir() bool                { return false }
func (d dirEntry) Type() fs.FileMode          { return 0 }
func (d dirEntry) Info() (fs.FileInfo, error) { return memInfo{name: d.name}, nil }

// ---- lines -----------------------------------------------------------------
type world struct {
	r    *rand.Rand
	text map[int]string
}

func (w *world) line(tok int) string {
	if s, ok := w.text[tok]; ok {
		return s
	}
	// sizes follow the model's abstraction (DirReader!Sz): every short line has the same length, every long line
	// (longer than the 4096-byte read buffer) has the same length, so that "the new file is exactly as large as
	// the old one" happens in reality whenever it happens in the model
	total := 48
	if tok%3 == 0 {
		total = 10000 // its first half alone exceeds the read buffer
		if (tok/3)%2 == 0 {
			total = 70000 // ... and some are longer than 64 KiB (one line, one event)
		}
	}
	const al = "abcdefghijklmnopqrstuvwxyz0123456789 =:()\"'"
	prefix := fmt.Sprintf("L%d-", tok)
	b := make([]byte, total-len(prefix))
	for i := range b {
		b[i] = al[w.r.Intn(len(al))]
	}
	s := prefix + string(b)
	w.text[tok] = s
	return s
}

func (w *world) tokOf(s string) int {
	for t, x := range w.text {
		if x == s {
			return t
		}
	}
	// a line the file never contained as such (torn / glued)
	if strings.HasPrefix(s, "L") {
		if i := strings.Index(s, "-"); i > 1 {
			if t, err := strconv.Atoi(s[1:i]); err == nil {
				return -t
			}
		}
	}
	return -9999
}

type Rec struct {
	K         string `json:"k"`
	ID        int    `json:"id"`
	Init      int    `json:"init"`
	Ops       []Op   `json:"ops"`
	Mode      string `json:"mode"`
	Delivered []int  `json:"delivered"`
	Err       string `json:"err"`
	Stuck     bool   `json:"stuck"`
}

const dir = "/var/log/audit-verif"

func runMem(id int, sc Scenario, inits []InitDef, seed int64) Rec {
	rec := Rec{K: "dirreader", ID: id, Init: sc.Init, Ops: sc.Ops, Mode: "mem", Delivered: []int{}}
	if rec.Ops == nil {
		rec.Ops = []Op{}
	}
	w := &world{r: rand.New(rand.NewSource(seed)), text: map[int]string{}}
	in := inits[sc.Init-1]
	mfs := &memFS{files: map[string][]byte{}}
	var entries []os.DirEntry
	for _, n := range in.Rot {
		name := fmt.Sprintf("audit.log.%d", n)
		mfs.files[filepath.Join(dir, name)] = []byte(w.line(1000+n) + "\n")
		entries = append(entries, dirEntry{name})
	}
	mainPath := filepath.Join(dir, "audit.log")
	partialTok := 51
	partialHead := ""
	if in.HasLive {
		var b []byte
		for k := 1; k <= in.Live; k++ {
			b = append(b, w.line(k)+"\n"...)
		}
		if in.Partial > 0 {
			l := w.line(partialTok)
			partialHead = l[:len(l)/2]
			b = append(b, partialHead...)
		}
		mfs.files[mainPath] = b
		entries = append(entries, dirEntry{"audit.log"})
	}
	entries = append(entries, dirEntry{"unrelated.txt"}, dirEntry{"auditlog"})
	w.r.Shuffle(len(entries), func(i, j int) { entries[i], entries[j] = entries[j], entries[i] })

	events := make(chan fsnotify.Event)
	ctx, cancel := context.WithCancel(context.Background())
	defer cancel()
	rd := dirreader.VerifStartLogDirReader(ctx, dir, entries, mfs, events)
	var mu sync.Mutex
	var got []string
	flush := make(chan chan struct{})
	go func() {
		for {
			select {
			case l := <-rd.Lines():
				mu.Lock()
				got = append(got, l)
				mu.Unlock()
			case ack := <-flush:
				close(ack) // everything received so far has been appended
			case <-ctx.Done():
				return
			}
		}
	}()
	select {
	case <-rd.InitFilesDone():
	case <-patience():
		rec.Stuck = true
		stuckSeen.Add(1)
		rec.Err = "initial files not read within 5 s"
		return rec
	}
	send := func(name string, op fsnotify.Op) bool {
		select {
		case events <- fsnotify.Event{Name: name, Op: op}:
			return true
		case <-patience():
			return false
		}
	}
	barrier := func() bool { return send(filepath.Join(dir, ".verif-barrier"), fsnotify.Chmod) }
	if !barrier() {
		rec.Stuck = true
		stuckSeen.Add(1)
		return rec
	}
	mut := func(f func()) {
		mfs.mu.Lock()
		f()
		mfs.mu.Unlock()
	}
	for _, op := range sc.Ops {
		ok := true
		switch op.Op {
		case "append":
			mut(func() { mfs.files[mainPath] = append(mfs.files[mainPath], w.line(op.Tok)+"\n"...) })
			ok = send(mainPath, fsnotify.Write)
		case "partial":
			l := w.line(op.Tok)
			partialTok, partialHead = op.Tok, l[:len(l)/2]
			mut(func() { mfs.files[mainPath] = append(mfs.files[mainPath], partialHead...) })
			ok = send(mainPath, fsnotify.Write)
		case "complete":
			l := w.line(op.Tok)
			mut(func() { mfs.files[mainPath] = append(mfs.files[mainPath], l[len(partialHead):]+"\n"...) })
			ok = send(mainPath, fsnotify.Write)
		case "rotate":
			mut(func() {
				mfs.files[filepath.Join(dir, "audit.log.1")] = mfs.files[mainPath]
				delete(mfs.files, mainPath)
			})
			ok = send(mainPath, fsnotify.Rename) && send(filepath.Join(dir, "audit.log.1"), fsnotify.Create)
			mut(func() { mfs.files[mainPath] = []byte{} })
			ok = ok && send(mainPath, fsnotify.Create) && send(mainPath, fsnotify.Chmod)
		case "truncate":
			mut(func() { mfs.files[mainPath] = []byte{} })
			ok = send(mainPath, fsnotify.Write)
		case "prune":
			// an old rotated file goes away (logrotate's / auditd's num_logs): an event for a sibling of the live file
			old := filepath.Join(dir, "audit.log.9")
			mut(func() { delete(mfs.files, old) })
			ok = send(old, fsnotify.Remove)
		case "create":
			mut(func() { mfs.files[mainPath] = []byte{} })
			ok = send(mainPath, fsnotify.Create) && send(mainPath, fsnotify.Chmod)
		}
		if !ok || !barrier() {
			rec.Stuck = true
			stuckSeen.Add(1)
			rec.Err = "the reader did not take the event within 5 s (op " + op.Op + ")"
			break
		}
	}
	ack := make(chan struct{})
	select {
	case flush <- ack:
		<-ack
	case <-time.After(2 * time.Second):
	}
	cancel()
	select {
	case <-waitCh(rd):
	case <-time.After(2 * time.Second):
	}
	mu.Lock()
	for _, l := range got {
		rec.Delivered = append(rec.Delivered, w.tokOf(l))
	}
	mu.Unlock()
	return rec
}

func waitCh(rd *dirreader.LogDirReader) <-chan struct{} {
	c := make(chan struct{})
	go func() { _ = rd.Wait(); close(c) }()
	return c
}

// runReal: initial ordering through os.ReadDir on real files.
func runReal(id int, sc Scenario, inits []InitDef, seed int64, base string) Rec {
	rec := Rec{K: "dirreader", ID: id, Init: sc.Init, Ops: []Op{}, Mode: "real", Delivered: []int{}}
	w := &world{r: rand.New(rand.NewSource(seed)), text: map[int]string{}}
	in := inits[sc.Init-1]
	d := filepath.Join(base, fmt.Sprintf("real-%d", id))
	must(os.MkdirAll(d, 0o700))
	defer os.RemoveAll(d)
	for _, n := range in.Rot {
		must(os.WriteFile(filepath.Join(d, fmt.Sprintf("audit.log.%d", n)), []byte(w.line(1000+n)+"\n"), 0o600))
	}
	if in.HasLive {
		var b []byte
		for k := 1; k <= in.Live; k++ {
			b = append(b, w.line(k)+"\n"...)
		}
		must(os.WriteFile(filepath.Join(d, "audit.log"), b, 0o600))
	}
	must(os.WriteFile(filepath.Join(d, "zz-other"), []byte("x\n"), 0o600))
	ctx, cancel := context.WithCancel(context.Background())
	defer cancel()
	rd, err := dirreader.StartLogDirReader(ctx, d)
	if err != nil {
		rec.Err = err.Error()
		return rec
	}
	var got []string
	done := false
	for !done {
		select {
		case l := <-rd.Lines():
			got = append(got, l)
		case <-rd.InitFilesDone():
			done = true
		case <-patience():
			rec.Stuck = true
			stuckSeen.Add(1)
			done = true
		}
	}
	cancel()
	for _, l := range got {
		rec.Delivered = append(rec.Delivered, w.tokOf(l))
	}
	return rec
}

// patience: how long to wait for the reader to take an event / finish its initial read.  A reader that got stuck is
// reported by the scenario; once that has been seen a few times the (generous) wait is shortened so that a broken
// tree does not cost hours.
var stuckSeen atomic.Int64

func patience() <-chan time.Time {
	if stuckSeen.Load() > 6 {
		return time.After(200 * time.Millisecond)
	}
	return time.After(5 * time.Second)
}

func main() {
	in := flag.String("in", "", "scenarios (json lines)")
	initsF := flag.String("inits", "", "InitTable (json)")
	out := flag.String("out", "", "trace (ndjson)")
	seed := flag.Int64("seed", 1, "seed")
	base := flag.String("dir", "", "directory for the real-file scenarios")
	flag.Parse()
	var inits []InitDef
	b, err := os.ReadFile(*initsF)
	must(err)
	must(json.Unmarshal(b, &inits))
	var scs []Scenario
	fi, err := os.Open(*in)
	must(err)
	s := bufio.NewScanner(fi)
	s.Buffer(make([]byte, 1<<20), 1<<26)
	for s.Scan() {
		var sc Scenario
		must(json.Unmarshal(s.Bytes(), &sc))
		scs = append(scs, sc)
	}
	recs := make([]Rec, 0, len(scs)+16)
	var mu sync.Mutex
	var wg sync.WaitGroup
	sem := make(chan struct{}, 8)
	for i, sc := range scs {
		wg.Add(1)
		sem <- struct{}{}
		i, sc := i, sc
		go func() {
			defer wg.Done()
			defer func() { <-sem }()
			r := runMem(i, sc, inits, *seed*7919+int64(i))
			mu.Lock()
			recs = append(recs, r)
			mu.Unlock()
			if len(sc.Ops) == 0 && *base != "" {
				r2 := runReal(1000000+i, sc, inits, *seed*104729+int64(i), *base)
				mu.Lock()
				recs = append(recs, r2)
				mu.Unlock()
			}
		}()
	}
	wg.Wait()
	sort.Slice(recs, func(i, j int) bool { return recs[i].ID < recs[j].ID })
	fo, err := os.Create(*out)
	must(err)
	bw := bufio.NewWriter(fo)
	enc := json.NewEncoder(bw)
	n := 0
	for _, r := range recs {
		must(enc.Encode(r))
		n += len(r.Delivered)
	}
	bw.Flush()
	fo.Close()
	fmt.Printf("{\"scenarios\":%d,\"lines_delivered\":%d}\n", len(recs), n)
}

func must(err error) {
	if err != nil {
		fmt.Fprintln(os.Stderr, err)
		os.Exit(2)
	}
}
