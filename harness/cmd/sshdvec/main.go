// sshdvec runs TLC-enumerated vectors of specs/SshdLog.tla through the real
// sshd processor and writes the observations as ndjson for SshdTrace.tla.
package main

import (
	"bufio"
	"encoding/json"
	"flag"
	"fmt"
	"math/rand"
	"os"

	"github.com/metal-toolbox/audito-maldito/verifharness/sshdvec"
)

func main() {
	in := flag.String("in", "", "vectors (json lines)")
	out := flag.String("out", "", "trace (ndjson)")
	seed := flag.Int64("seed", 1, "seed")
	conc := flag.Int("conc", 4, "concretisations per vector")
	framed := flag.Bool("framed", true, "also deliver framed through the syslog ingester")
	fifoDir := flag.String("fifodir", "", "if set: also deliver through a real FIFO created in this directory")
	fifoEvery := flag.Int("fifoevery", 1, "deliver every n-th record through the FIFO")
	streamOn := flag.Bool("stream", true, "also deliver every line to one long-lived processor (one registry for the whole run)")
	flag.Parse()

	fi, err := os.Open(*in)
	if err != nil {
		fmt.Fprintln(os.Stderr, err)
		os.Exit(2)
	}
	fo, err := os.Create(*out)
	if err != nil {
		fmt.Fprintln(os.Stderr, err)
		os.Exit(2)
	}
	bw := bufio.NewWriterSize(fo, 1<<20)
	enc := json.NewEncoder(bw)
	enc.SetEscapeHTML(false)
	sc := bufio.NewScanner(fi)
	sc.Buffer(make([]byte, 1<<20), 1<<26)
	r := rand.New(rand.NewSource(*seed))
	n, nev, nfr, nfifo := 0, 0, 0, 0
	var sess *sshdvec.FifoSession
	lastPid := ""
	var stream *sshdvec.Stream
	if *streamOn {
		stream = &sshdvec.Stream{}
		defer stream.Close()
	}
	nrec := 0
	forms := map[string]int{}
	for sc.Scan() {
		var v sshdvec.Vector
		if err := json.Unmarshal(sc.Bytes(), &v); err != nil {
			fmt.Fprintln(os.Stderr, "bad vector:", err)
			os.Exit(2)
		}
		c := *conc
		if v.Fam == "noise" && c > 2 {
			c = 2
		}
		var prev sshdvec.Subst
		for k := 0; k < c; k++ {
			var fp **sshdvec.FifoSession
			nrec++
			sshdvec.SetDebug(nrec%3 == 2)
			if *fifoDir != "" && nrec%*fifoEvery == 0 {
				fp = &sess
			}
			// every second concretisation of a vector keeps a random half of the previous one's values
			var keep sshdvec.Subst
			if k%2 == 1 {
				keep = prev
			}
			// a quarter of the records carry the PID of the record before them (whatever its form)
			reuse := ""
			if r.Intn(4) == 0 {
				reuse = lastPid
			}
			rec := sshdvec.Run(&v, r, n, k, *framed, fp, *fifoDir, stream, keep, reuse)
			prev = rec.Subst
			lastPid = ""
			if rec.PidInt > 0 && v.PidTok == "" {
				lastPid = rec.Pid
			}
			if rec.Fifo != nil {
				nfifo++
			}
			if err := enc.Encode(rec); err != nil {
				fmt.Fprintln(os.Stderr, err)
				os.Exit(2)
			}
			nev += len(rec.Direct.Events)
			if rec.Framed != nil {
				nfr++
			}
			if len(rec.Direct.Events) > 0 {
				forms[v.Form+"/"+v.Fam]++
			}
		}
		n++
	}
	bw.Flush()
	fo.Close()
	if sess != nil {
		sess.Close()
	}
	st, _ := json.Marshal(map[string]any{"vectors": n, "events": nev, "framed": nfr, "fifo": nfifo, "emitting": forms})
	fmt.Println(string(st))
}
