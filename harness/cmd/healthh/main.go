// healthh drives the real internal/health for C18:
//
//	-mode seq   sequential histories (from specs/HealthSeq.tla) with GET /readyz after every prefix
//	-mode conc  concurrent programs (from specs/HealthMC.tla) under the controlled scheduler
//	-mode wait  WaitForReady scripts (from specs/HealthWait.tla)
//
// and records what happened for specs/HealthTrace.tla.
package main

import (
	"bufio"
	"context"
	"encoding/json"
	"errors"
	"flag"
	"fmt"
	"math/rand"
	"net/http"
	"net/http/httptest"
	"os"
	"sync"
	"time"

	"github.com/metal-toolbox/audito-maldito/internal/health"
	"github.com/metal-toolbox/audito-maldito/verifharness/sched"
)

type Op struct {
	Op string `json:"op"`
	C  string `json:"c,omitempty"`
}

type Body struct {
	Comps   map[string]string `json:"comps"`
	Overall string            `json:"overall"`
}

type Resp struct {
	T    int  `json:"t"`
	I    int  `json:"i"`
	Code int  `json:"code"`
	Body Body `json:"body"`
}

func apply(h *health.Health, o Op) {
	switch o.Op {
	case "add":
		h.AddReadiness(o.C)
	case "ready":
		h.OnReady(o.C)
	}
}

// respPoint: writing the status line and writing the body are scheduling points of a request (under the controlled
// scheduler another thread may run between them - a handler that computes the code and the body from data it shares
// with other requests shows there)
var respPoint = &struct{ x int }{}

type pointWriter struct{ *httptest.ResponseRecorder }

func (w pointWriter) WriteHeader(code int) {
	defer sched.Point(respPoint, "WriteHeader")()
	w.ResponseRecorder.WriteHeader(code)
}

func (w pointWriter) Write(b []byte) (int, error) {
	defer sched.Point(respPoint, "WriteBody")()
	return w.ResponseRecorder.Write(b)
}

func status(h *health.Health) (int, Body) {
	rec := httptest.NewRecorder()
	h.ReadyzHandler().ServeHTTP(pointWriter{rec}, httptest.NewRequest(http.MethodGet, "/readyz", nil))
	var m map[string]string
	_ = json.Unmarshal(rec.Body.Bytes(), &m)
	b := Body{Comps: map[string]string{}}
	for k, v := range m {
		if k == health.OverallReady {
			b.Overall = v
		} else {
			b.Comps[k] = v
		}
	}
	return rec.Code, b
}

func main() {
	mode := flag.String("mode", "seq", "seq | conc | wait")
	in := flag.String("in", "", "input (json lines)")
	out := flag.String("out", "", "trace (ndjson)")
	seed := flag.Int64("seed", 1, "seed")
	capN := flag.Int("cap", 200000, "max schedules per program")
	flag.Parse()
	fo, err := os.Create(*out)
	must(err)
	bw := bufio.NewWriter(fo)
	enc := json.NewEncoder(bw)
	n := 0
	var stats any
	switch *mode {
	case "seq":
		readLines(*in, func(b []byte) {
			var ops []Op
			must(json.Unmarshal(b, &ops))
			h := health.NewHealth()
			resps := []map[string]any{}
			c, bd := status(h)
			resps = append(resps, map[string]any{"code": c, "body": bd})
			for _, o := range ops {
				apply(h, o)
				c, bd := status(h)
				resps = append(resps, map[string]any{"code": c, "body": bd})
			}
			must(enc.Encode(map[string]any{"k": "seq", "id": n, "ops": ops, "resps": resps}))
			n++
		})
		stats = map[string]any{"histories": n}
	case "conc":
		stats = conc(*in, enc, *seed, *capN)
	case "wait":
		stats = wait(*in, enc)
	}
	bw.Flush()
	fo.Close()
	b, _ := json.Marshal(stats)
	fmt.Println(string(b))
}

type Program struct {
	Name    string `json:"name"`
	Pre     []Op   `json:"pre"`
	Threads [][]Op `json:"threads"`
}

func conc(in string, enc *json.Encoder, seed int64, capN int) any {
	per := []map[string]any{}
	total, id := 0, 0
	rng := rand.New(rand.NewSource(seed))
	readLines(in, func(b []byte) {
		var p Program
		must(json.Unmarshal(b, &p))
		if p.Pre == nil {
			p.Pre = []Op{}
		}
		seen := map[string]map[string]any{}
		prefix := []int{}
		nsched := 0
		complete := false
		for nsched < capN {
			h := health.NewHealth()
			for _, o := range p.Pre {
				apply(h, o)
			}
			var mu sync.Mutex
			resps := []Resp{}
			panicked := ""
			var fns []func()
			for ti, th := range p.Threads {
				ti, th := ti, th
				fns = append(fns, func() {
					defer func() {
						if r := recover(); r != nil {
							mu.Lock()
							panicked = fmt.Sprint(r)
							mu.Unlock()
						}
					}()
					for i, o := range th {
						if o.Op == "status" {
							c, bd := status(h)
							mu.Lock()
							resps = append(resps, Resp{T: ti + 1, I: i + 1, Code: c, Body: bd})
							mu.Unlock()
						} else {
							apply(h, o)
						}
					}
				})
			}
			ex := sched.Run(fns, prefix, sched.First, rng, -1, func(e *sched.Exec) { e.Name(respPoint, "resp") })
			nsched++
			if !ex.Deadlock && !ex.Hang {
				// the probe: one more request after every thread has finished (thread 0)
				c, bd := status(h)
				resps = append(resps, Resp{T: 0, I: 1, Code: c, Body: bd})
			}
			// canonical order of responses
			for i := range resps {
				for j := i + 1; j < len(resps); j++ {
					if resps[j].T < resps[i].T || (resps[j].T == resps[i].T && resps[j].I < resps[i].I) {
						resps[i], resps[j] = resps[j], resps[i]
					}
				}
			}
			kb, _ := json.Marshal([]any{resps, ex.Deadlock, ex.Hang, panicked})
			if s, ok := seen[string(kb)]; ok {
				s["count"] = s["count"].(int) + 1
			} else {
				seen[string(kb)] = map[string]any{"k": "conc", "name": p.Name, "pre": p.Pre, "threads": p.Threads,
					"resps": resps, "deadlock": ex.Deadlock, "hang": ex.Hang, "panic": panicked, "count": 1,
					"sched": ex.Taken}
			}
			prefix = sched.Next(ex.Taken, ex.Alts)
			if prefix == nil {
				complete = true
				break
			}
		}
		for _, s := range seen {
			s["id"] = id
			id++
			must(enc.Encode(s))
		}
		per = append(per, map[string]any{"name": p.Name, "schedules": nsched, "outcomes": len(seen), "exhaustive": complete})
		total += nsched
	})
	return map[string]any{"schedules": total, "per_program": per, "outcomes": id}
}

type Script struct {
	Pre    []Op   `json:"pre"`
	Mid    []Op   `json:"mid"`
	Cancel string `json:"cancel"`
}

func wait(in string, enc *json.Encoder) any {
	health.DefaultReadyCheckInterval = 2 * time.Millisecond
	long := 150 * time.Millisecond
	var scripts []Script
	readLines(in, func(b []byte) {
		var s Script
		must(json.Unmarshal(b, &s))
		scripts = append(scripts, s)
	})
	results := make([]map[string]any, len(scripts))
	second := make([]map[string]any, len(scripts))
	var wg sync.WaitGroup
	for i, s := range scripts {
		wg.Add(1)
		i, s := i, s
		go func() {
			defer wg.Done()
			h := health.NewHealth()
			ev := []map[string]any{}
			do := func(ops []Op) {
				for _, o := range ops {
					if o.Op == "tick" { // several polling periods pass
						time.Sleep(long)
						ev = append(ev, map[string]any{"e": "sleep"})
						continue
					}
					apply(h, o)
					ev = append(ev, map[string]any{"e": "op", "o": o})
				}
			}
			state := "pending"
			isctx := false
			do(s.Pre)
			ctx, cancel := context.WithCancel(context.Background())
			defer cancel()
			ev = append(ev, map[string]any{"e": "start"})
			ch := h.WaitForReady(ctx)
			observe := func() {
				if state == "pending" {
					select {
					case err, ok := <-ch:
						if !ok {
							state = "closed"
						} else {
							state = "err"
							isctx = errors.Is(err, context.Canceled)
						}
					default:
					}
				}
				ev = append(ev, map[string]any{"e": "obs", "state": state, "isctx": isctx})
			}
			sleep := func() {
				time.Sleep(long)
				ev = append(ev, map[string]any{"e": "sleep"})
			}
			if s.Cancel == "beforemid" {
				ev = append(ev, map[string]any{"e": "cancel"})
				cancel()
				sleep()
				observe()
			}
			do(s.Mid)
			sleep()
			observe()
			if s.Cancel == "aftermid" {
				ev = append(ev, map[string]any{"e": "cancel"})
				cancel()
				sleep()
				observe()
			}
			results[i] = map[string]any{"k": "wait", "id": i, "script": s, "events": ev}
			// a SECOND wait on the same Health, started after everything above: it sees the readiness map as it is
			// now, not what an earlier wait saw (its own record: the operations so far, then start / sleep / observation)
			ev2 := []map[string]any{}
			for _, e := range ev {
				if e["e"] == "op" {
					ev2 = append(ev2, e)
				}
			}
			ctx2, cancel2 := context.WithCancel(context.Background())
			ev2 = append(ev2, map[string]any{"e": "start"})
			ch2 := h.WaitForReady(ctx2)
			time.Sleep(long)
			ev2 = append(ev2, map[string]any{"e": "sleep"})
			st2, isctx2 := "pending", false
			select {
			case err, ok := <-ch2:
				if !ok {
					st2 = "closed"
				} else {
					st2 = "err"
					isctx2 = errors.Is(err, context.Canceled)
				}
			default:
			}
			ev2 = append(ev2, map[string]any{"e": "obs", "state": st2, "isctx": isctx2})
			cancel2()
			second[i] = map[string]any{"k": "wait", "id": len(scripts) + i, "script": s, "second": true, "events": ev2}
		}()
	}
	wg.Wait()
	// waits whose context is ALREADY cancelled when they start: the waiter was cancelled first, so it must yield the
	// context's error whatever the readiness map says. A long polling period, so that a tick cannot come first.
	health.DefaultReadyCheckInterval = 400 * time.Millisecond
	var firstc []map[string]any
	for j, pre := range [][]Op{{}, {{Op: "add", C: "a"}, {Op: "ready", C: "a"}}, {{Op: "add", C: "a"}},
		{{Op: "add", C: "a"}, {Op: "add", C: "b"}, {Op: "ready", C: "b"}, {Op: "ready", C: "a"}},
		{{Op: "ready", C: "c"}}} {
		h := health.NewHealth()
		ev := []map[string]any{}
		for _, o := range pre {
			apply(h, o)
			ev = append(ev, map[string]any{"e": "op", "o": o})
		}
		ctx, cancel := context.WithCancel(context.Background())
		cancel()
		ev = append(ev, map[string]any{"e": "cancel"}, map[string]any{"e": "start"})
		ch := h.WaitForReady(ctx)
		time.Sleep(60 * time.Millisecond)
		ev = append(ev, map[string]any{"e": "sleep"})
		st, isctx := "pending", false
		select {
		case err, ok := <-ch:
			if !ok {
				st = "closed"
			} else {
				st = "err"
				isctx = errors.Is(err, context.Canceled)
			}
		default:
		}
		ev = append(ev, map[string]any{"e": "obs", "state": st, "isctx": isctx})
		firstc = append(firstc, map[string]any{"k": "wait", "id": 2*len(scripts) + j, "script": Script{Pre: pre, Mid: []Op{}, Cancel: "first"},
			"cancelledfirst": true, "events": ev})
	}
	for _, r := range results {
		must(enc.Encode(r))
	}
	for _, r := range second {
		must(enc.Encode(r))
	}
	for _, r := range firstc {
		must(enc.Encode(r))
	}
	return map[string]any{"scripts": len(scripts), "second_waits": len(second), "cancelled_first_waits": len(firstc)}
}

func readLines(path string, f func([]byte)) {
	fi, err := os.Open(path)
	must(err)
	defer fi.Close()
	sc := bufio.NewScanner(fi)
	sc.Buffer(make([]byte, 1<<20), 1<<26)
	for sc.Scan() {
		f(append([]byte(nil), sc.Bytes()...))
	}
}

func must(err error) {
	if err != nil {
		fmt.Fprintln(os.Stderr, err)
		os.Exit(2)
	}
}
