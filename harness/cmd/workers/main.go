// workers drives each real pipeline worker (audit pipe ingester, sshd pipe
// ingester, audit processor) into each blocking situation of
// Pipeline!WorkerScenarios, cancels its context and records how long it took
// to return and whether it delivered anything after returning (C13).
package main

import (
	"bufio"
	"context"
	"encoding/json"
	"errors"
	"flag"
	"fmt"
	"os"
	"path/filepath"
	"strings"
	"sync"
	"sync/atomic"
	"syscall"
	"time"

	"github.com/metal-toolbox/auditevent"
	"github.com/prometheus/client_golang/prometheus"
	"go.uber.org/zap"
	"golang.org/x/sys/unix"

	"github.com/metal-toolbox/audito-maldito/ingesters/auditlog"
	"github.com/metal-toolbox/audito-maldito/ingesters/namedpipe"
	"github.com/metal-toolbox/audito-maldito/ingesters/syslog"
	"github.com/metal-toolbox/audito-maldito/internal/common"
	"github.com/metal-toolbox/audito-maldito/internal/health"
	"github.com/metal-toolbox/audito-maldito/internal/metrics"
	"github.com/metal-toolbox/audito-maldito/processors/auditd"
	"github.com/metal-toolbox/audito-maldito/processors/sshd"
)

type Scenario struct {
	Worker string `json:"worker"`
	State  string `json:"state"`
	Cap    int    `json:"cap"`
	Stall  int    `json:"stall"` // ms the worker stays in the blocking state before its context is cancelled
}

type Rec struct {
	K        string `json:"k"`
	ID       int    `json:"id"`
	Worker   string `json:"worker"`
	State    string `json:"state"`
	Cap      int    `json:"cap"`
	Stall    int    `json:"stall"`
	Reached  bool   `json:"reached"`
	Returned bool   `json:"returned"`
	Ms       int    `json:"ms"`
	Late     int    `json:"late"`
	ErrCtx   bool   `json:"errctx"`
	Err      string `json:"err"`
	Note     string `json:"note"`
	Login    string `json:"login"` // "sendinglate" only: "got" | "lost" - the login once the correlator is ready again
}

const (
	bound  = 3 * time.Second
	settle = 60 * time.Millisecond
)

type countEnc struct {
	n atomic.Int64
	// gate (scenario "inflight"): once armed, an Encode waits until the worker has returned (or 1 s): a write that is
	// still to come when the worker returns is then seen AFTER the return, whatever the scheduling
	armed    atomic.Bool
	returned atomic.Bool
	after    atomic.Int64
	fail     atomic.Bool // every write fails
}

var errWrite = errors.New("verif: injected write failure")

func (e *countEnc) Encode(any) error {
	if e.fail.Load() {
		return errWrite
	}
	if e.armed.Load() {
		dl := time.Now().Add(time.Second)
		for !e.returned.Load() && time.Now().Before(dl) {
			time.Sleep(200 * time.Microsecond)
		}
		if e.returned.Load() {
			e.after.Add(1)
		}
	}
	e.n.Add(1)
	return nil
}

func auditLine(seq int) string {
	return fmt.Sprintf("type=USER_START msg=audit(1668460768.%03d:%d): pid=25007 uid=0 auid=1000 ses=499 "+
		"msg='op=PAM:session_open grantors=pam_unix acct=\"someuser\" exe=\"/usr/sbin/sshd\" hostname=127.0.0.1 "+
		"addr=127.0.0.1 terminal=ssh res=success'\n", seq%1000, 30000+seq)
}

func drained(w *os.File) bool {
	n, err := unix.IoctlGetInt(int(w.Fd()), unix.TIOCINQ)
	return err != nil || n == 0
}

func waitFor(d time.Duration, cond func() bool) bool {
	dl := time.Now().Add(d)
	for time.Now().Before(dl) {
		if cond() {
			return true
		}
		time.Sleep(200 * time.Microsecond)
	}
	return cond()
}

// finish cancels and measures.
func finish(rec *Rec, cancel context.CancelFunc, done <-chan error, progress func() int64) {
	if rec.Stall > 0 { // a long stall in the blocking state (a worker that gives up waiting politely after a while ...)
		time.Sleep(time.Duration(rec.Stall) * time.Millisecond)
	}
	before := time.Now()
	cancel()
	select {
	case err := <-done:
		rec.Returned = true
		rec.Ms = int(time.Since(before).Milliseconds())
		if err != nil {
			rec.Err = err.Error()
		}
		// every worker reports the cancellation (or the read error it caused) as an error
		rec.ErrCtx = err != nil
	case <-time.After(bound):
		rec.Ms = int(bound.Milliseconds())
	}
	if rec.Returned && progress != nil {
		time.Sleep(settle)
		a := progress()
		time.Sleep(250 * time.Millisecond)
		rec.Late = int(progress() - a)
	}
}

func runA(dir string, sc Scenario, rec *Rec) {
	path := filepath.Join(dir, fmt.Sprintf("a-%d", rec.ID))
	must(syscall.Mkfifo(path, 0o600))
	defer os.Remove(path)
	ch := make(chan string, sc.Cap)
	h := health.NewHealth()
	np := namedpipe.NewNamedPipeIngester(zap.NewNop().Sugar(), h)
	ing := auditlog.NewAuditLogIngester(path, ch, np)
	ctx, cancel := context.WithCancel(context.Background())
	defer cancel()
	done := make(chan error, 1)
	go func() { done <- ing.Ingest(ctx) }()
	var consumed atomic.Int64
	progress := func() int64 { return consumed.Load() + int64(len(ch)) }
	switch sc.State {
	case "opening", "openingunlinked":
		time.Sleep(30 * time.Millisecond)
		rec.Reached = len(done) == 0
		if sc.State == "openingunlinked" {
			// the pipe's path goes away (and, for odd capacities, comes back as a new FIFO) while the worker waits
			os.Remove(path)
			if sc.Cap%2 == 1 {
				must(syscall.Mkfifo(path, 0o600))
			}
		}
		finish(rec, cancel, done, progress)
		// unblock the opener goroutine left behind
		if w, err := os.OpenFile(path, os.O_WRONLY|syscall.O_NONBLOCK, 0); err == nil {
			w.Close()
		}
		return
	}
	w, err := os.OpenFile(path, os.O_WRONLY, 0)
	must(err)
	defer w.Close()
	switch sc.State {
	case "reading":
		time.Sleep(20 * time.Millisecond)
		rec.Reached = len(done) == 0
	case "readingfull":
		for i := 0; i < sc.Cap; i++ {
			w.WriteString(auditLine(i))
		}
		rec.Reached = waitFor(time.Second, func() bool { return len(ch) == sc.Cap && drained(w) }) && len(done) == 0
		time.Sleep(10 * time.Millisecond)
	case "partial":
		w.WriteString("type=USER_START msg=audit(1668460768.196:30166): pid=2")
		rec.Reached = waitFor(time.Second, func() bool { return drained(w) }) && len(done) == 0
		time.Sleep(10 * time.Millisecond)
	case "sending":
		// consumer stopped: cap lines fill the channel, one more is held by the blocked send, the rest stays in the pipe
		for i := 0; i < sc.Cap+3; i++ {
			w.WriteString(auditLine(i))
		}
		rec.Reached = waitFor(time.Second, func() bool { return len(ch) == sc.Cap }) && len(done) == 0
		time.Sleep(30 * time.Millisecond)
		rec.Reached = rec.Reached && len(ch) == sc.Cap && len(done) == 0
	case "sendingthrough":
		// the consumer is away until the channel is full and a send is blocked, then it takes everything: back-pressure
		// delays lines, it never loses one (C15/C07); afterwards the worker is cancelled while waiting for input
		n := sc.Cap + 40
		for i := 0; i < n; i++ {
			w.WriteString(auditLine(i))
		}
		rec.Reached = waitFor(time.Second, func() bool { return len(ch) == sc.Cap }) && len(done) == 0
		time.Sleep(30 * time.Millisecond)
		got, inorder := 0, true
		deadline := time.After(2 * time.Second)
	through:
		for got < n {
			select {
			case l := <-ch:
				if strings.TrimRight(l, "\n") != strings.TrimRight(auditLine(got), "\n") {
					inorder = false
				}
				got++
				consumed.Add(1)
			case <-deadline:
				break through
			}
		}
		rec.Login = "lines:ok"
		if got != n || !inorder {
			rec.Login = "lines:lost"
			rec.Note = fmt.Sprintf("%d of %d lines arrived once the consumer was back (in order: %v)", got, n, inorder)
		}
	case "flood":
		stop := make(chan struct{})
		defer close(stop)
		go func() {
			for {
				select {
				case <-ch:
					consumed.Add(1)
				case <-stop:
					return
				}
			}
		}()
		go func() {
			for i := 0; ; i++ {
				if _, err := w.WriteString(auditLine(i)); err != nil {
					return
				}
				select {
				case <-stop:
					return
				default:
				}
			}
		}()
		rec.Reached = waitFor(time.Second, func() bool { return consumed.Load() > 200 }) && len(done) == 0
	}
	finish(rec, cancel, done, progress)
}

func runS(dir string, sc Scenario, rec *Rec) {
	path := filepath.Join(dir, fmt.Sprintf("s-%d", rec.ID))
	must(syscall.Mkfifo(path, 0o600))
	defer os.Remove(path)
	enc := &countEnc{}
	logins := make(chan common.RemoteUserLogin)
	ctx, cancel := context.WithCancel(context.Background())
	defer cancel()
	pm := metrics.NewPrometheusMetricsProviderForRegisterer(prometheus.NewRegistry())
	proc := sshd.NewSshdProcessor(ctx, logins, "n", "m", auditevent.NewAuditEventWriter(enc), pm)
	h := health.NewHealth()
	ing := syslog.NewSyslogIngester(path, proc, namedpipe.NewNamedPipeIngester(zap.NewNop().Sugar(), h))
	done := make(chan error, 1)
	go func() { done <- ing.Ingest(ctx) }()
	progress := func() int64 { return enc.n.Load() }
	if sc.State == "opening" || sc.State == "openingunlinked" {
		time.Sleep(30 * time.Millisecond)
		rec.Reached = len(done) == 0
		if sc.State == "openingunlinked" {
			os.Remove(path)
			if sc.Cap%2 == 1 {
				must(syscall.Mkfifo(path, 0o600))
			}
		}
		finish(rec, cancel, done, progress)
		if w, err := os.OpenFile(path, os.O_WRONLY|syscall.O_NONBLOCK, 0); err == nil {
			w.Close()
		}
		return
	}
	w, err := os.OpenFile(path, os.O_WRONLY, 0)
	must(err)
	defer w.Close()
	switch sc.State {
	case "reading":
		time.Sleep(20 * time.Millisecond)
		rec.Reached = len(done) == 0
	case "partial":
		w.WriteString("4242 Accepted password for bob from 10.0.0.1 po")
		rec.Reached = waitFor(time.Second, func() bool { return drained(w) }) && len(done) == 0
		time.Sleep(10 * time.Millisecond)
	case "inflightwrite":
		// the worker is inside the event write (a stalled output) when its context is cancelled: it returns when the
		// record in hand is done - nothing of it reaches the output after the return
		enc.armed.Store(true)
		w.WriteString("4243 Failed password for bob from 10.0.0.1 port 22 ssh2\n")
		time.Sleep(40 * time.Millisecond)
		rec.Reached = len(done) == 0
		before := time.Now()
		cancel()
		select {
		case err := <-done:
			enc.returned.Store(true)
			rec.Returned = true
			rec.Ms = int(time.Since(before).Milliseconds())
			rec.ErrCtx = err != nil
			if err != nil {
				rec.Err = err.Error()
			}
		case <-time.After(bound):
			rec.Ms = int(bound.Milliseconds())
		}
		time.Sleep(1200 * time.Millisecond)
		rec.Late = int(enc.after.Load())
		return
	case "writefail":
		// the event of an accepted login cannot be written: the WORKER (ingester chain included) ends with that error
		enc.fail.Store(true)
		w.WriteString("4242 Accepted password for bob from 10.0.0.1 port 22 ssh2\n")
		rec.Reached = true
		select {
		case err := <-done:
			rec.Returned = true
			rec.ErrCtx = err != nil
			if err != nil {
				rec.Err = err.Error()
			}
			rec.Login = "werr:" + map[bool]string{true: "wrapped", false: "lost"}[errors.Is(err, errWrite)]
		case <-time.After(bound):
			rec.Ms = int(bound.Milliseconds())
			rec.Login = "werr:lost"
		}
		return
	case "sending", "sendinglate":
		// one accepted-login variant per channel-capacity value of the scenario (0..3)
		w.WriteString([]string{
			"4242 Accepted password for bob from 10.0.0.1 port 22 ssh2\n",
			"4242 Accepted publickey for bob from 10.0.0.1 port 22 ssh2: ED25519 SHA256:YI+caZKJCNaXgsD0NvRZ2fLaEeF46cEVyadru/SL76o\n",
			"4242 Accepted publickey for bob from 10.0.0.1 port 22 ssh2: ED25519-CERT SHA256:YI+caZKJCNaXgsD0NvRZ2fLaEeF46cEVyadru/SL76o ID foo@bar.com (serial 0) CA ED25519 SHA256:Pcs5TWfcOSKb7Rw/XyvHfUcaQzmw6HtLrjUoyXuzIj8\n",
			"4242 Accepted publickey for bob from 10.0.0.1 port 22 ssh2: ED25519-CERT SHA256:YI+caZKJCNaXgsD0NvRZ2fLaEeF46cEVyadru/SL76o and stuff\n",
		}[sc.Cap%4])
		w.WriteString("4243 Failed password for bob from 10.0.0.1 port 22 ssh2\n")
		rec.Reached = waitFor(time.Second, func() bool { return enc.n.Load() == 1 }) && len(done) == 0
		time.Sleep(30 * time.Millisecond)
		rec.Reached = rec.Reached && enc.n.Load() == 1 && len(done) == 0
		if sc.State == "sendinglate" {
			// the correlator is merely busy: nobody cancels, and after the stall it receives again (C05: the login
			// is forwarded unless the context is cancelled - however long the hand-off had to wait)
			stall := rec.Stall
			time.Sleep(time.Duration(stall) * time.Millisecond)
			select {
			case l := <-logins:
				rec.Login = "got"
				if l.PID != 4242 {
					rec.Login = "lost"
				}
			case <-time.After(time.Second):
				rec.Login = "lost"
			}
			waitFor(time.Second, func() bool { return enc.n.Load() == 2 }) // the next line is processed now
			rec.Stall = 0
			finish(rec, cancel, done, progress)
			rec.Stall = stall
			return
		}
	case "flood":
		stop := make(chan struct{})
		defer close(stop)
		go func() {
			for i := 0; ; i++ {
				if _, err := fmt.Fprintf(w, "%d Failed password for bob from 10.0.0.1 port 22 ssh2\n", 1000+i); err != nil {
					return
				}
				select {
				case <-stop:
					return
				default:
				}
			}
		}()
		rec.Reached = waitFor(time.Second, func() bool { return enc.n.Load() > 200 }) && len(done) == 0
	}
	finish(rec, cancel, done, progress)
}

func runP(sc Scenario, rec *Rec) {
	enc := &countEnc{}
	audits := make(chan string, sc.Cap)
	logins := make(chan common.RemoteUserLogin)
	ctx, cancel := context.WithCancel(context.Background())
	defer cancel()
	a := auditd.Auditd{Audits: audits, Logins: logins, EventW: auditevent.NewAuditEventWriter(enc), Health: health.NewHealth()}
	done := make(chan error, 1)
	go func() { done <- a.Read(ctx) }()
	progress := func() int64 { return enc.n.Load() }
	var fed atomic.Int64
	stop := make(chan struct{})
	defer close(stop)
	switch sc.State {
	case "idle":
		time.Sleep(30 * time.Millisecond)
		rec.Reached = len(done) == 0
	case "busy", "loginpending":
		// a correlated session so that events flow to the output
		evt := auditevent.NewAuditEvent("UserLogin", auditevent.EventSource{Type: "IP", Value: "10.0.0.1"}, "succeeded",
			map[string]string{"loggedAs": "u", "userID": "x", "pid": "25007"}, "sshd")
		select {
		case logins <- common.RemoteUserLogin{Source: evt, PID: 25007, CredUserID: "x"}:
		case <-time.After(time.Second):
		}
		audits <- "type=LOGIN msg=audit(1668460768.100:29999): pid=25007 uid=0 old-auid=4294967295 auid=1000 tty=(none) old-ses=4294967295 ses=499 res=1"
		go func() {
			for i := 0; ; i++ {
				select {
				case audits <- auditLine(i)[:len(auditLine(i))-1]:
					fed.Add(1)
				case <-stop:
					return
				}
			}
		}()
		if sc.State == "loginpending" {
			// a sender blocked on the unbuffered logins channel at the time of cancellation is not Read's concern,
			// but Read must not take the login after it decided to return
			go func() {
				for {
					e2 := auditevent.NewAuditEvent("UserLogin", auditevent.EventSource{Type: "IP", Value: "10.0.0.2"}, "succeeded",
						map[string]string{"loggedAs": "v", "userID": "y", "pid": "777"}, "sshd")
					select {
					case logins <- common.RemoteUserLogin{Source: e2, PID: 777, CredUserID: "y"}:
					case <-stop:
						return
					}
				}
			}()
		}
		rec.Reached = waitFor(2*time.Second, func() bool { return enc.n.Load() > 100 }) && len(done) == 0
	case "unboundcancel":
		// a session whose login never came holds events when the context is cancelled: nothing is written for it, not
		// even on the way out (C04)
		audits <- "type=LOGIN msg=audit(1668460768.100:29999): pid=25007 uid=0 old-auid=4294967295 auid=1000 tty=(none) old-ses=4294967295 ses=499 res=1"
		audits <- auditLine(1)[:len(auditLine(1))-1]
		audits <- auditLine(2)[:len(auditLine(2))-1]
		time.Sleep(40 * time.Millisecond)
		rec.Reached = len(done) == 0 && enc.n.Load() == 0
		finish(rec, cancel, done, nil)
		time.Sleep(300 * time.Millisecond)
		rec.Login = "quiet"
		if enc.n.Load() > 0 {
			rec.Login = "leak"
		}
		return
	case "backlog":
		// cancelled with a long backlog in the line channel (a write in progress: the parser is busy). Read and its
		// parser stop taking input: the parser's choice between "cancelled" and "another line" is a fair one, so a
		// handful of lines may still go through (k more with probability 2^-k) - not the whole queue
		evt := auditevent.NewAuditEvent("UserLogin", auditevent.EventSource{Type: "IP", Value: "10.0.0.1"}, "succeeded",
			map[string]string{"loggedAs": "u", "userID": "x", "pid": "25007"}, "sshd")
		select {
		case logins <- common.RemoteUserLogin{Source: evt, PID: 25007, CredUserID: "x"}:
		case <-time.After(time.Second):
		}
		audits <- "type=LOGIN msg=audit(1668460768.100:29999): pid=25007 uid=0 old-auid=4294967295 auid=1000 tty=(none) old-ses=4294967295 ses=499 res=1"
		rec.Reached = waitFor(time.Second, func() bool { return enc.n.Load() == 1 })
		enc.armed.Store(true)
		n := sc.Cap / 2
		for i := 0; i < n; i++ {
			select {
			case audits <- auditLine(i)[:len(auditLine(i))-1]:
			case <-time.After(time.Second):
				rec.Reached = false
			}
		}
		time.Sleep(40 * time.Millisecond)
		rec.Reached = rec.Reached && len(done) == 0 && len(audits) >= n-3
		before := time.Now()
		cancel()
		select {
		case err := <-done:
			enc.returned.Store(true)
			rec.Returned = true
			rec.Ms = int(time.Since(before).Milliseconds())
			rec.ErrCtx = err != nil
			if err != nil {
				rec.Err = err.Error()
			}
		case <-time.After(bound):
			rec.Ms = int(bound.Milliseconds())
		}
		time.Sleep(1200 * time.Millisecond)
		late := enc.after.Load()
		rec.Login = "backlog:left"
		if late > 30 {
			rec.Login = "backlog:drained"
		}
		rec.Note = fmt.Sprintf("%d of %d queued lines were still processed after the cancellation (%d left in the channel)", late, n, len(audits))
		return
	case "inflightfail":
		// two events still being assembled and an output that has started to fail: the flush on the way out reports
		// two errors with nobody left to receive them - Read still returns
		evt := auditevent.NewAuditEvent("UserLogin", auditevent.EventSource{Type: "IP", Value: "10.0.0.1"}, "succeeded",
			map[string]string{"loggedAs": "u", "userID": "x", "pid": "25007"}, "sshd")
		select {
		case logins <- common.RemoteUserLogin{Source: evt, PID: 25007, CredUserID: "x"}:
		case <-time.After(time.Second):
		}
		audits <- "type=LOGIN msg=audit(1668460768.100:29999): pid=25007 uid=0 old-auid=4294967295 auid=1000 tty=(none) old-ses=4294967295 ses=499 res=1"
		rec.Reached = waitFor(time.Second, func() bool { return enc.n.Load() == 1 })
		for k := 0; k < 3; k++ {
			audits <- fmt.Sprintf("type=SYSCALL msg=audit(1668460769.10%d:3010%d): arch=c000003e syscall=59 success=yes exit=0 a0=1 a1=2 a2=3 a3=4 items=0 ppid=1 pid=25010 auid=1000 uid=1000 gid=1000 euid=1000 suid=1000 fsuid=1000 egid=1000 sgid=1000 fsgid=1000 tty=pts3 ses=499 comm=\"x\" exe=\"/bin/x\" key=\"k\"", k, k)
		}
		time.Sleep(40 * time.Millisecond)
		rec.Reached = rec.Reached && len(done) == 0
		enc.fail.Store(true)
	case "inflight":
		// a correlated session with an event still being assembled (SYSCALL without its PROCTITLE) when the context
		// is cancelled: what Read flushes on its way out is written BEFORE it returns
		evt := auditevent.NewAuditEvent("UserLogin", auditevent.EventSource{Type: "IP", Value: "10.0.0.1"}, "succeeded",
			map[string]string{"loggedAs": "u", "userID": "x", "pid": "25007"}, "sshd")
		select {
		case logins <- common.RemoteUserLogin{Source: evt, PID: 25007, CredUserID: "x"}:
		case <-time.After(time.Second):
		}
		audits <- "type=LOGIN msg=audit(1668460768.100:29999): pid=25007 uid=0 old-auid=4294967295 auid=1000 tty=(none) old-ses=4294967295 ses=499 res=1"
		rec.Reached = waitFor(time.Second, func() bool { return enc.n.Load() == 1 })
		audits <- "type=SYSCALL msg=audit(1668460769.100:30100): arch=c000003e syscall=59 success=yes exit=0 a0=1 a1=2 a2=3 a3=4 items=0 ppid=1 pid=25010 auid=1000 uid=1000 gid=1000 euid=1000 suid=1000 fsuid=1000 egid=1000 sgid=1000 fsgid=1000 tty=pts3 ses=499 comm=\"x\" exe=\"/bin/x\" key=\"k\""
		time.Sleep(40 * time.Millisecond)
		rec.Reached = rec.Reached && len(done) == 0 && enc.n.Load() == 1
		enc.armed.Store(true)
		before := time.Now()
		cancel()
		select {
		case err := <-done:
			enc.returned.Store(true)
			rec.Returned = true
			rec.Ms = int(time.Since(before).Milliseconds())
			rec.ErrCtx = err != nil
			if err != nil {
				rec.Err = err.Error()
			}
		case <-time.After(bound):
			rec.Ms = int(bound.Milliseconds())
		}
		time.Sleep(1200 * time.Millisecond)
		rec.Late = int(enc.after.Load())
		return
	}
	finish(rec, cancel, done, progress)
	if rec.Returned && !errors.Is(context.Canceled, context.Canceled) {
		rec.ErrCtx = false
	}
}

func main() {
	in := flag.String("in", "", "scenarios (json array or lines)")
	out := flag.String("out", "", "trace (ndjson)")
	dir := flag.String("dir", "", "directory for FIFOs")
	reps := flag.Int("reps", 1, "repetitions of every scenario")
	flag.Parse()
	sshd.SetLogger(zap.NewNop().Sugar())
	auditd.SetLogger(zap.NewNop().Sugar())
	b, err := os.ReadFile(*in)
	must(err)
	var scs []Scenario
	must(json.Unmarshal(b, &scs))
	var all []Scenario
	for r := 0; r < *reps; r++ {
		all = append(all, scs...)
	}
	recs := make([]Rec, len(all))
	var wg sync.WaitGroup
	sem := make(chan struct{}, 10)
	for i, sc := range all {
		wg.Add(1)
		i, sc := i, sc
		sem <- struct{}{}
		go func() {
			defer wg.Done()
			defer func() { <-sem }()
			rec := &recs[i]
			*rec = Rec{K: "worker", ID: i, Worker: sc.Worker, State: sc.State, Cap: sc.Cap, Stall: sc.Stall}
			switch sc.Worker {
			case "A":
				runA(*dir, sc, rec)
			case "S":
				runS(*dir, sc, rec)
			case "P":
				runP(sc, rec)
			}
		}()
	}
	wg.Wait()
	fo, err := os.Create(*out)
	must(err)
	bw := bufio.NewWriter(fo)
	enc := json.NewEncoder(bw)
	for _, r := range recs {
		must(enc.Encode(r))
	}
	bw.Flush()
	fo.Close()
	fmt.Printf("{\"scenarios\":%d}\n", len(recs))
}

func must(err error) {
	if err != nil {
		fmt.Fprintln(os.Stderr, err)
		os.Exit(2)
	}
}
