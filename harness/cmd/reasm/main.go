// reasm realises the scenarios of specs/ReasmGen.tla against the real audit
// processor (Auditd.Read with the real parser, go-libaudit reassembler,
// coalescer, call-back and session tracker): records of up to three kernel
// events interleaved, a malformed line at any position, a failing event write,
// an invalid login at any point.  One session is correlated beforehand, so
// that every event handed to the correlator shows up at the encoder.
package main

import (
	"bufio"
	"encoding/json"
	"errors"
	"flag"
	"fmt"
	"os"
	"strings"
	"time"

	"github.com/elastic/go-libaudit/v2/auparse"

	"github.com/metal-toolbox/audito-maldito/verifharness/l1"
)

type Fault struct {
	Kind string `json:"kind"`
	At   int    `json:"at"`
}

type Scenario struct {
	Shapes [][]string      `json:"shapes"`
	Order  [][]any         `json:"order"`
	Fault  Fault           `json:"fault"`
	Expect json.RawMessage `json:"expect"`
	// PauseAt > 0: in the stepwise run the writer is silent for PauseMs after the PauseAt-th record (an event whose
	// records arrive with a gap shorter than the reassembly time-out is still ONE event)
	PauseAt int `json:"pauseAt"`
	PauseMs int `json:"pauseMs"`
}

type ObsEvent struct {
	Ev    int  `json:"ev"`
	Args  bool `json:"args"`
	ArgOK bool `json:"argok"`
}

type Obs struct {
	Events  []ObsEvent `json:"events"`
	Ret     string     `json:"ret"`
	RetS    string     `json:"rets"`
	MsgLine bool       `json:"msgline"`
	Wraps   bool       `json:"wraps"`
}

type Rec struct {
	Mode   string     `json:"mode"`
	ID     int        `json:"id"`
	Shapes [][]string `json:"shapes"`
	Order  [][]any    `json:"order"`
	Fault  Fault      `json:"fault"`
	Obs    Obs        `json:"obs"`
}

func runOne(id int, sc Scenario, seed int64) Rec {
	rec := Rec{Mode: "stepwise", ID: id, Shapes: sc.Shapes, Order: sc.Order, Fault: sc.Fault, Obs: Obs{Events: []ObsEvent{}}}
	failAt := 0
	if sc.Fault.Kind == "writefail" || sc.Fault.Kind == "writefailp" {
		failAt = 1 + sc.Fault.At // one write for the session's own LOGIN record
	}
	l := l1.NewL2(seed, failAt)
	l.W.Enc.Persistent = sc.Fault.Kind == "writefailp"
	defer l.Close()
	// correlate one session
	if ok, _ := l.Apply(l1.Call{K: "login", ID: 1, Pid: 1}); !ok {
		rec.Obs.Ret = "setup-failed"
		return rec
	}
	if ok, _ := l.Apply(l1.Call{K: "audit", Tag: 1, Sess: "s1", Typ: "LOGIN", Pid: 1, Res: "success"}); !ok {
		rec.Obs.Ret = "setup-failed"
		return rec
	}
	setup := l.W.Enc.Take()
	if len(setup) != 1 {
		rec.Obs.Ret = "setup-failed"
		return rec
	}
	sess := l.W.RealSess("s1")
	base := 7000000 + int(seed%100000)
	stamp := func(e int) string { return fmt.Sprintf("audit(%d.%03d:%d)", 1700000000+e, e, base+e) }
	line := func(e int, kind string) string {
		st := stamp(e)
		switch kind {
		case "U":
			return fmt.Sprintf("type=USER_START msg=%s: pid=%d uid=0 auid=1000 ses=%s msg='op=PAM:session_open grantors=pam_unix acct=\"u\" exe=\"/usr/sbin/sshd\" hostname=127.0.0.1 addr=127.0.0.1 terminal=ssh res=success'", st, 900+e, sess)
		case "S":
			return fmt.Sprintf("type=SYSCALL msg=%s: arch=c000003e syscall=59 success=yes exit=0 a0=1 a1=2 a2=3 a3=8 items=1 ppid=%d pid=%d auid=1000 uid=1000 gid=1000 euid=1000 suid=1000 fsuid=1000 egid=1000 sgid=1000 fsgid=1000 tty=pts3 ses=%s comm=\"c%d\" exe=\"/usr/bin/ls\" key=\"k\"", st, 800+e, 900+e, sess, e)
		case "E":
			return fmt.Sprintf("type=EXECVE msg=%s: argc=2 a0=\"ls\" a1=\"--ev=%d\"", st, e)
		case "C":
			return fmt.Sprintf("type=CWD msg=%s: cwd=\"/home/u%d\"", st, e)
		}
		return fmt.Sprintf("type=PROCTITLE msg=%s: proctitle=6C73", st)
	}
	badline := malformed(id, seed)
	alive := true
	for i := 0; i <= len(sc.Order) && alive; i++ {
		pos := i + 1
		if sc.Fault.Kind == "malformed" && sc.Fault.At == pos {
			alive = l.SendRaw(badline)
			if alive {
				alive = l.Barrier()
			}
			l.ExpectReturn()
			l.Settle()
			alive = alive && !l.Retd
		}
		if sc.Fault.Kind == "badlogin" && sc.Fault.At == pos && alive {
			ok, _ := l.Apply(l1.Call{K: "badlogin", Tag: pos, Bad: []string{"nosrc", "pid0", "pidneg", "nocred"}[pos%4]})
			alive = ok
		}
		if sc.Fault.Kind == "badpid" && sc.Fault.At == pos && alive {
			bad := fmt.Sprintf("type=LOGIN msg=audit(%d.000:%d): pid=%s uid=0 old-auid=4294967295 auid=1000 tty=(none) old-ses=4294967295 ses=%d res=1",
				1690000000+pos, base-100+pos, []string{"abc", "12x", "", "0x1f"}[pos%4], 800000+id%1000)
			alive = l.SendRaw(bad) && l.Barrier()
			l.ExpectReturn()
			l.Settle()
			alive = alive && !l.Retd
		}
		if i == len(sc.Order) || !alive {
			break
		}
		e := int(sc.Order[i][0].(float64))
		kind := sc.Order[i][1].(string)
		alive = l.SendRaw(line(e, kind)) && l.Barrier()
		if sc.PauseAt == pos && sc.PauseMs > 0 {
			time.Sleep(time.Duration(sc.PauseMs) * time.Millisecond)
		}
		if alive && failAt != 0 {
			l.Settle()
			alive = !l.Retd
		}
	}
	if !l.Retd {
		l.Settle()
	}
	observe(&rec, l, badline)
	return rec
}

// malformed returns a line the audit parser (auparse, the dependency) rejects; several classes of such lines.
func malformed(id int, seed int64) string {
	u := fmt.Sprintf("%d-%d", id, seed%1000)
	cands := []string{
		"this is not an audit record " + u,
		"type=FOO" + u + " msg=audit(1668460768.196:30166): pid=1 a=b",
		"e=SYSCALL msg=audit(1668460768.196:30166): arch=c000003e syscall=59 u=" + u,
		"type=SYSCALL msg=audit(abc:1): arch=c000003e u=" + u,
		" " + u[:0] + " ",
		"type=UNKNOWN[13x9] msg=audit(1668460768.196:30166): a=" + u,
		"type=SYSCALL msg=audit(1668460768.196:99999999999999999999): a=" + u,
		"\x00\xff garbage msg=audit(1668460768.196:30166): a=" + u,
		"type=SYSCALL",
		"msg=audit(1668460768.196:30166): a=" + u,
		"# comment " + u,
		"\ttype=SYSCALL msg=audit(oops): " + u,
	}
	for k := 0; k < len(cands); k++ {
		c := cands[(id+k)%len(cands)]
		if _, err := auparse.ParseLogLine(c); err != nil {
			return c
		}
	}
	return cands[0]
}

func observe(recp *Rec, l *l1.L2, badline string) {
	rec := recp
	// observation
	switch {
	case !l.Retd:
		rec.Obs.Ret = "none"
	case l.RetErr == nil:
		rec.Obs.Ret = "nil"
	default:
		msg := l.RetErr.Error()
		rec.Obs.RetS = msg
		rec.Obs.Wraps = errors.Is(l.RetErr, l1.ErrInjected)
		switch {
		case strings.Contains(msg, "failed to parse auditd log line"):
			rec.Obs.Ret = "parse"
			rec.Obs.MsgLine = strings.Contains(msg, badline)
		case rec.Obs.Wraps:
			rec.Obs.Ret = "write"
		case strings.Contains(msg, "remote user login"):
			rec.Obs.Ret = "login"
		case strings.Contains(msg, "failed to parse audit session init event pid"):
			rec.Obs.Ret = "pid"
		default:
			rec.Obs.Ret = "other"
		}
	}
	if l.Retd {
		time.Sleep(2 * time.Millisecond) // Read's deferred reassembler.Close() has run before it returned
	}
	for _, raw := range l.W.Enc.Take() {
		var ev struct {
			LoggedAt time.Time `json:"loggedAt"`
			Metadata struct {
				Extra map[string]any `json:"extra"`
			} `json:"metadata"`
		}
		_ = json.Unmarshal(raw, &ev)
		e := int(ev.LoggedAt.Unix() - 1700000000)
		o := ObsEvent{Ev: e, ArgOK: true}
		if a, ok := ev.Metadata.Extra["process_args"]; ok {
			o.Args = true
			b, _ := json.Marshal(a)
			o.ArgOK = strings.Contains(string(b), fmt.Sprintf("--ev=%d\"", e))
		}
		rec.Obs.Events = append(rec.Obs.Events, o)
	}
}

// the lines of a scenario, with the fault's line spliced in
type feed struct {
	lines   []string
	badline string
}

func scenarioLines(id int, sc Scenario, seed int64, sess string) feed {
	base := 7000000 + int(seed%100000)
	stamp := func(e int) string { return fmt.Sprintf("audit(%d.%03d:%d)", 1700000000+e, e, base+e) }
	line := func(e int, kind string) string {
		st := stamp(e)
		switch kind {
		case "U":
			return fmt.Sprintf("type=USER_START msg=%s: pid=%d uid=0 auid=1000 ses=%s msg='op=PAM:session_open grantors=pam_unix acct=\"u\" exe=\"/usr/sbin/sshd\" hostname=127.0.0.1 addr=127.0.0.1 terminal=ssh res=success'", st, 900+e, sess)
		case "S":
			return fmt.Sprintf("type=SYSCALL msg=%s: arch=c000003e syscall=59 success=yes exit=0 a0=1 a1=2 a2=3 a3=8 items=1 ppid=%d pid=%d auid=1000 uid=1000 gid=1000 euid=1000 suid=1000 fsuid=1000 egid=1000 sgid=1000 fsgid=1000 tty=pts3 ses=%s comm=\"c%d\" exe=\"/usr/bin/ls\" key=\"k\"", st, 800+e, 900+e, sess, e)
		case "E":
			return fmt.Sprintf("type=EXECVE msg=%s: argc=2 a0=\"ls\" a1=\"--ev=%d\"", st, e)
		case "C":
			return fmt.Sprintf("type=CWD msg=%s: cwd=\"/home/u%d\"", st, e)
		}
		return fmt.Sprintf("type=PROCTITLE msg=%s: proctitle=6C73", st)
	}
	f := feed{badline: malformed(id, seed)}
	for i := 0; i <= len(sc.Order); i++ {
		pos := i + 1
		if sc.Fault.Kind == "malformed" && sc.Fault.At == pos {
			f.lines = append(f.lines, f.badline)
		}
		if sc.Fault.Kind == "badpid" && sc.Fault.At == pos {
			f.lines = append(f.lines, fmt.Sprintf("type=LOGIN msg=audit(%d.000:%d): pid=%s uid=0 old-auid=4294967295 auid=1000 tty=(none) old-ses=4294967295 ses=%d res=1",
				1690000000+pos, base-100+pos, []string{"abc", "12x", "", "0x1f"}[pos%4], 800000+id%1000))
		}
		if i < len(sc.Order) {
			f.lines = append(f.lines, line(int(sc.Order[i][0].(float64)), sc.Order[i][1].(string)))
		}
	}
	return f
}

func setup(l *l1.L2) (string, bool) {
	if ok, _ := l.Apply(l1.Call{K: "login", ID: 1, Pid: 1}); !ok {
		return "", false
	}
	if ok, _ := l.Apply(l1.Call{K: "audit", Tag: 1, Sess: "s1", Typ: "LOGIN", Pid: 1, Res: "success"}); !ok {
		return "", false
	}
	if len(l.W.Enc.Take()) != 1 {
		return "", false
	}
	return l.W.RealSess("s1"), true
}

// runBacklog: the whole stream is already queued in a buffered Audits channel when the parser gets to it.
func runBacklog(id int, sc Scenario, seed int64) Rec {
	rec := Rec{Mode: "backlog", ID: id, Shapes: sc.Shapes, Order: sc.Order, Fault: sc.Fault, Obs: Obs{Events: []ObsEvent{}}}
	failAt := 0
	if sc.Fault.Kind == "writefail" || sc.Fault.Kind == "writefailp" {
		failAt = 1 + sc.Fault.At
	}
	l := l1.NewL2Buf(seed, failAt, 64, true)
	l.W.Enc.Persistent = sc.Fault.Kind == "writefailp"
	defer l.Close()
	sess, ok := setup(l)
	if !ok {
		rec.Obs.Ret = "setup-failed"
		return rec
	}
	f := scenarioLines(id, sc, seed, sess)
	// hold the parser with a gate: pre-load while it is busy with a first (blocked) encoder call? simpler: the
	// channel is buffered, a burst of sends completes at once and the parser finds a backlog
	for _, ln := range f.lines {
		if !l.Preload(ln) {
			rec.Obs.Ret = "setup-failed"
			return rec
		}
	}
	faulty := sc.Fault.Kind != "none"
	if faulty {
		l.WaitReturn(l1.FaultWait())
	} else {
		dl := time.Now().Add(2 * time.Second)
		for !l.Drained() && time.Now().Before(dl) {
			time.Sleep(100 * time.Microsecond)
		}
		l.Barrier()
		l.Settle()
	}
	observe(&rec, l, f.badline)
	return rec
}

// runBusy: the failing event write is reported while Read is busy handling a login (not parked in its select).
func runBusy(id int, sc Scenario, seed int64) Rec {
	rec := Rec{Mode: "busy", ID: id, Shapes: sc.Shapes, Order: sc.Order, Fault: sc.Fault, Obs: Obs{Events: []ObsEvent{}}}
	failAt := 1 + sc.Fault.At
	l := l1.NewL2Buf(seed, failAt, 64, true)
	defer l.Close()
	sess, ok := setup(l)
	if !ok {
		rec.Obs.Ret = "setup-failed"
		return rec
	}
	// gate the failing Encode until Read has taken a login and entered RemoteLogin
	atFail := make(chan struct{}, 1)
	gate := make(chan struct{})
	n := 1
	l.W.Enc.Point = func() func() {
		n++
		if n == failAt {
			atFail <- struct{}{}
			select {
			case <-gate:
			case <-time.After(l1.Patience(3 * time.Second)):
				l1.Expired()
			}
		}
		return func() {}
	}
	f := scenarioLines(id, sc, seed, sess)
	for _, ln := range f.lines {
		l.Preload(ln)
	}
	select {
	case <-atFail:
		for len(l.LoginEntered()) > 0 {
			<-l.LoginEntered()
		}
		if l.SendLoginAsync(50, 3) {
			select {
			case <-l.LoginEntered(): // Read is inside RemoteLogin now (about to wait for the tracker's mutex)
				time.Sleep(200 * time.Microsecond)
			case <-time.After(l1.Patience(time.Second)):
				l1.Expired()
			}
		}
		close(gate)
	case <-time.After(l1.Patience(2 * time.Second)):
		l1.Expired()
		close(gate)
	}
	l.WaitReturn(l1.FaultWait())
	observe(&rec, l, f.badline)
	return rec
}

func main() {
	in := flag.String("in", "", "scenarios (json lines)")
	out := flag.String("out", "", "trace (ndjson)")
	seed := flag.Int64("seed", 1, "seed")
	backlogEvery := flag.Int("backlogevery", 1, "also run every n-th scenario with the stream queued as a backlog")
	flag.Parse()
	l1.InstallL2Hook()
	var scs []Scenario
	fi, err := os.Open(*in)
	must(err)
	s := bufio.NewScanner(fi)
	s.Buffer(make([]byte, 1<<20), 1<<26)
	for s.Scan() {
		var sc Scenario
		must(json.Unmarshal(s.Bytes(), &sc))
		scs = append(scs, sc)
	}
	// the L2 hook is process-global: scenarios run one at a time
	recs := make([]Rec, len(scs))
	for i, sc := range scs {
		recs[i] = runOne(i, sc, *seed*100003+int64(i))
	}
	// the same scenarios with the stream queued as a backlog, and failing writes reported while Read is busy
	n0 := len(recs)
	for i, sc := range scs {
		if sc.PauseAt > 0 {
			continue
		}
		if sc.Fault.Kind != "badlogin" && (i%*backlogEvery == 0 || sc.Fault.Kind == "malformed") {
			r := runBacklog(n0+i, sc, *seed*100003+int64(i))
			recs = append(recs, r)
		}
		if sc.Fault.Kind == "writefail" && sc.Fault.At <= len(sc.Shapes) {
			r := runBusy(2*n0+i, sc, *seed*100003+int64(i))
			recs = append(recs, r)
		}
	}
	fo, err := os.Create(*out)
	must(err)
	bw := bufio.NewWriter(fo)
	enc := json.NewEncoder(bw)
	n := 0
	for _, r := range recs {
		must(enc.Encode(r))
		n += len(r.Obs.Events)
	}
	bw.Flush()
	fo.Close()
	fmt.Printf("{\"scenarios\":%d,\"events\":%d}\n", len(recs), n)
}

func must(err error) {
	if err != nil {
		fmt.Fprintln(os.Stderr, err)
		os.Exit(2)
	}
}
