// Package auditgen turns the abstract audit events of specs/Tracker.tla
// (tag, session, type, pid, result, has-arguments) into groups of real Linux
// audit log lines (as auditd writes them) with templates taken from the
// repository's own testdata, for the L2 (Auditd.Read through the real parser,
// reassembler and coalescer) and L3 (built daemon) drivers.
package auditgen

import (
	"encoding/hex"
	"fmt"
	"math/rand"
	"strings"
	"time"

	"github.com/elastic/go-libaudit/v2/aucoalesce"
	"github.com/elastic/go-libaudit/v2/auparse"
)

// Event is the abstract event (a Call of kind "audit" in harness/l1).
type Event struct {
	Tag  int
	Sess string // real session id, "unset" or ""
	Typ  string // LOGIN | CRED_DISP | OTHER
	Pid  string // pid field (LOGIN record); may be unparsable
	Res  string // success | fail | unknown
	Args bool
	// OldSes is the old-ses field of a LOGIN record (default: unset)
	OldSes string
}

// Group is the record group of one kernel event.
type Group struct {
	Tag   int
	Seq   uint32
	TS    time.Time
	Lines []string
	Shape string
}

type Gen struct {
	R       *rand.Rand
	SeqBase uint32
	TSBase  int64 // unix seconds
}

func New(r *rand.Rand) *Gen {
	return &Gen{R: r, SeqBase: uint32(20000 + r.Intn(1000000)), TSBase: 1668000000 + int64(r.Intn(5000000))}
}

func (g *Gen) stamp(tag int) (string, uint32, time.Time) {
	seq := g.SeqBase + uint32(tag)
	sec := g.TSBase + int64(tag)
	ms := (tag * 37) % 1000
	return fmt.Sprintf("audit(%d.%03d:%d)", sec, ms, seq), seq, time.Unix(sec, int64(ms)*1e6)
}

func sesField(s string) string {
	switch s {
	case "":
		return ""
	case "unset":
		return " ses=4294967295"
	}
	return " ses=" + s
}

func (g *Gen) resUser(res string) string {
	switch res {
	case "success":
		return []string{" res=success", " res=1"}[g.R.Intn(2)]
	case "fail":
		return []string{" res=failed", " res=0"}[g.R.Intn(2)]
	}
	return ""
}

// Lines renders the record group of an abstract event.
func (g *Gen) Lines(e Event) Group {
	st, seq, ts := g.stamp(e.Tag)
	gr := Group{Tag: e.Tag, Seq: seq, TS: ts}
	user := fmt.Sprintf("u%d", e.Tag)
	switch e.Typ {
	case "LOGIN":
		// kernel LOGIN record: res=1 is success, res=0 failure
		res := ""
		switch e.Res {
		case "success":
			res = " res=1"
		case "fail":
			res = " res=0"
		}
		gr.Shape = "LOGIN"
		old := e.OldSes
		if old == "" {
			old = "4294967295"
		}
		gr.Lines = []string{fmt.Sprintf("type=LOGIN msg=%s: pid=%s uid=0 old-auid=4294967295 auid=1000 tty=(none) old-ses=%s%s%s",
			st, e.Pid, old, sesField(e.Sess), res)}
		if e.Args {
			// a LOGIN record has no arguments; an abstract "args" LOGIN is rendered the same
		}
	case "CRED_DISP":
		gr.Shape = "CRED_DISP"
		gr.Lines = []string{fmt.Sprintf("type=CRED_DISP msg=%s: pid=%d uid=0 auid=1000%s msg='op=PAM:setcred grantors=pam_permit acct=\"%s\" exe=\"/usr/sbin/sshd\" hostname=127.0.0.1 addr=127.0.0.1 terminal=ssh%s'",
			st, 3000+e.Tag, sesField(e.Sess), user, g.resUser(e.Res))}
	default:
		if !e.Args && e.Tag%6 == 4 {
			// a compound event whose FIRST record is not the SYSCALL record (auditctl -w: CONFIG_CHANGE + SYSCALL +
			// PROCTITLE): the summary comes from the records in the order the kernel wrote them
			succ := ""
			switch e.Res {
			case "success":
				succ = " success=yes exit=1072"
			case "fail":
				succ = " success=no exit=-1"
			}
			gr.Shape = "CONFIG_CHANGE+SYSCALL"
			gr.Lines = []string{
				fmt.Sprintf("type=CONFIG_CHANGE msg=%s: auid=1000%s op=add_rule key=\"watch-%d\" list=4 res=1", st, sesField(e.Sess), e.Tag),
				fmt.Sprintf("type=SYSCALL msg=%s: arch=c000003e syscall=44%s a0=3 a1=7ffd1c2b3a40 a2=430 a3=0 items=0 ppid=%d pid=%d auid=1000 uid=0 gid=0 euid=0 suid=0 fsuid=0 egid=0 sgid=0 fsgid=0 tty=pts0%s comm=\"auditctl\" exe=\"/usr/sbin/auditctl\" key=(null)",
					st, succ, 2000+e.Tag, 4000+e.Tag, sesField(e.Sess)),
				fmt.Sprintf("type=PROCTITLE msg=%s: proctitle=617564697463746C002D77002F6574632F706173737764", st),
			}
			return gr
		}
		if !e.Args && e.Tag%6 == 2 {
			// rename over an existing target: five PATH records (two PARENT entries, the two names that go away, the one
			// that is created); the summary's object is found through the syscall's path index, PARENT entries included
			succ := ""
			switch e.Res {
			case "success":
				succ = " success=yes exit=0"
			case "fail":
				succ = " success=no exit=-13"
			}
			dirn := fmt.Sprintf("/home/%s", user)
			pp := func(item int, name, nametype string, inode int, mode string) string {
				return fmt.Sprintf("type=PATH msg=%s: item=%d name=\"%s\" inode=%d dev=fd:00 mode=%s ouid=1000 ogid=1000 rdev=00:00 nametype=%s cap_fp=0 cap_fi=0 cap_fe=0 cap_fver=0",
					st, item, name, inode, mode, nametype)
			}
			gr.Shape = "SYSCALL rename"
			gr.Lines = []string{
				fmt.Sprintf("type=SYSCALL msg=%s: arch=c000003e syscall=82%s a0=7ffd3a1c a1=7ffd3a25 a2=0 a3=0 items=5 ppid=%d pid=%d auid=1000 uid=1000 gid=1000 euid=1000 suid=1000 fsuid=1000 egid=1000 sgid=1000 fsgid=1000 tty=pts0%s comm=\"mv\" exe=\"/usr/bin/mv\" key=\"files\"",
					st, succ, 2000+e.Tag, 4000+e.Tag, sesField(e.Sess)),
				fmt.Sprintf("type=CWD msg=%s: cwd=\"%s\"", st, dirn),
				pp(0, dirn, "PARENT", 100, "040755"),
				pp(1, dirn, "PARENT", 100, "040755"),
				pp(2, fmt.Sprintf("new-%d.conf", e.Tag), "DELETE", 201, "0100644"),
				pp(3, fmt.Sprintf("app-%d.conf", e.Tag), "DELETE", 202, "0100644"),
				pp(4, fmt.Sprintf("app-%d.conf", e.Tag), "CREATE", 201, "0100644"),
				fmt.Sprintf("type=PROCTITLE msg=%s: proctitle=6D76006E65772E636F6E66006170702E636F6E66", st),
			}
			return gr
		}
		if e.Args || g.R.Intn(3) == 0 {
			// compound event: SYSCALL [+ EXECVE] + CWD + PATH + PROCTITLE
			succ := ""
			switch e.Res {
			case "success":
				succ = " success=yes exit=0"
			case "fail":
				succ = " success=no exit=-13"
			}
			exe := []string{"/usr/bin/ls", "/usr/bin/cat", "/usr/bin/id", "/usr/bin/sh"}[e.Tag%4]
			// a script run by an interpreter: the summary's "how" is the command name, and some names look like hex
			comm := fmt.Sprintf("x%d", e.Tag)
			if exe == "/usr/bin/sh" {
				comm = []string{"2048", "ABBA", "CAFE", "deploy"}[(e.Tag/4)%4]
			}
			gr.Shape = "SYSCALL"
			gr.Lines = append(gr.Lines, fmt.Sprintf("type=SYSCALL msg=%s: arch=c000003e syscall=59%s a0=56430ae99960 a1=56430aea8040 a2=56430aef7f30 a3=8 items=1 ppid=%d pid=%d auid=1000 uid=1000 gid=1000 euid=1000 suid=1000 fsuid=1000 egid=1000 sgid=1000 fsgid=1000 tty=pts3%s comm=\"%s\" exe=\"%s\" key=\"operator-commands\"",
				st, succ, 2000+e.Tag, 4000+e.Tag, sesField(e.Sess), comm, exe))
			if e.Args {
				gr.Shape = "SYSCALL+EXECVE"
				args := []string{exe, fmt.Sprintf("--tag=%d", e.Tag), "/etc/resolv.conf", "a b"}[:2+g.R.Intn(3)]
				var sb strings.Builder
				fmt.Fprintf(&sb, "type=EXECVE msg=%s: argc=%d", st, len(args))
				for i, a := range args {
					if strings.ContainsAny(a, " ") {
						fmt.Fprintf(&sb, " a%d=%s", i, strings.ToUpper(hex.EncodeToString([]byte(a))))
					} else {
						fmt.Fprintf(&sb, " a%d=\"%s\"", i, a)
					}
				}
				gr.Lines = append(gr.Lines, sb.String())
			}
			gr.Lines = append(gr.Lines,
				fmt.Sprintf("type=CWD msg=%s: cwd=\"/home/%s\"", st, user),
				fmt.Sprintf("type=PATH msg=%s: item=0 name=\"%s\" inode=1442550 dev=fd:00 mode=0100755 ouid=0 ogid=0 rdev=00:00 nametype=NORMAL cap_fp=0 cap_fi=0 cap_fe=0 cap_fver=0 cap_frootid=0", st, exe),
				fmt.Sprintf("type=PROCTITLE msg=%s: proctitle=%s", st, strings.ToUpper(hex.EncodeToString([]byte(exe)))))
		} else {
			typ := []string{"USER_START", "USER_END", "USER_ACCT", "CRED_ACQ", "USER_LOGIN", "USER_CMD", "CRED_REFR"}[e.Tag%7]
			gr.Shape = typ
			if typ == "USER_CMD" {
				// sudo's record: cwd / cmd (hex) / terminal / res
				gr.Lines = []string{fmt.Sprintf("type=USER_CMD msg=%s: pid=%d uid=0 auid=1000%s msg='cwd=\"/home/%s\" cmd=%s terminal=pts/0%s'",
					st, 3000+e.Tag, sesField(e.Sess), user, strings.ToUpper(hex.EncodeToString([]byte(fmt.Sprintf("ls -l /tmp/%d", e.Tag)))), g.resUser(e.Res))}
			} else {
				gr.Lines = []string{fmt.Sprintf("type=%s msg=%s: pid=%d uid=0 auid=1000%s msg='op=PAM:session_open grantors=pam_unix acct=\"%s\" exe=\"/usr/sbin/sshd\" hostname=127.0.0.1 addr=127.0.0.1 terminal=ssh%s'",
					typ, st, 3000+e.Tag, sesField(e.Sess), user, g.resUser(e.Res))}
			}
		}
	}
	return gr
}

// Reference coalesces the group the way the daemon is specified to (aucoalesce on the same records).
func Reference(lines []string) (*aucoalesce.Event, error) {
	var msgs []*auparse.AuditMessage
	for _, l := range lines {
		m, err := auparse.ParseLogLine(l)
		if err != nil {
			return nil, err
		}
		msgs = append(msgs, m)
	}
	ev, err := aucoalesce.CoalesceMessages(msgs)
	if err != nil {
		return nil, err
	}
	aucoalesce.ResolveIDs(ev)
	return ev, nil
}
