// Package sched turns the verif scheduling hook (internal/common.VerifSchedHook,
// fired before every instrumented lock acquisition and after the matching
// release) into a controlled scheduler: exactly one program thread runs between
// two scheduling points, and a stateless depth-first search enumerates every
// interleaving of a small concurrent program at lock-acquisition granularity.
// It decides nothing: executions are recorded and judged by TLC.
package sched

import (
	"fmt"
	"math/rand"
	"sync"
	"time"

	"github.com/metal-toolbox/audito-maldito/internal/common"
)

// Event is one scheduling event of an execution.
type Event struct {
	T     int    `json:"t"`
	Op    string `json:"op"`
	Lock  string `json:"lock"`
	Phase string `json:"ph"` // "acq" (about to acquire, chosen by the scheduler) | "rel"
}

type thread struct {
	id      int
	gate    chan struct{}
	pending any // lock object it is about to acquire (nil: initial start)
	pendOp  string
	done    bool
	parked  bool
}

// Exec is one controlled execution.
type Exec struct {
	mu      sync.Mutex
	threads []*thread
	cur     *thread
	sig     chan int
	held    map[any]*thread
	names   map[any]string
	Trace   []Event
	active  bool

	prefix []int
	Taken  []int
	Alts   []int
	Preempt int // number of pre-emptive switches taken
	rng    *rand.Rand
	maxPre int

	Deadlock bool
	Hang     bool
}

var (
	globalMu sync.Mutex
	current  *Exec
)

func init() {
	common.VerifSchedHook = func(obj any, op, phase string) {
		e := current
		if e == nil || !e.active {
			return
		}
		e.hook(obj, op, phase)
	}
}

// Point lets harness-owned objects (the event encoder) be scheduling points.
func Point(obj any, op string) func() {
	e := current
	if e == nil || !e.active {
		return func() {}
	}
	e.hook(obj, op, "before")
	return func() { e.hook(obj, op, "after") }
}

func (e *Exec) name(obj any) string {
	if n, ok := e.names[obj]; ok {
		return n
	}
	n := fmt.Sprintf("L%d", len(e.names))
	e.names[obj] = n
	return n
}

// Name registers a readable name for a lock object.
func (e *Exec) Name(obj any, n string) { e.names[obj] = n }

func (e *Exec) hook(obj any, op, phase string) {
	t := e.cur
	if phase == "before" {
		t.pending, t.pendOp = obj, op
		t.parked = true
		e.sig <- t.id
		<-t.gate
		return
	}
	e.mu.Lock()
	if e.held[obj] == t {
		delete(e.held, obj)
	}
	e.Trace = append(e.Trace, Event{T: t.id, Op: op, Lock: e.name(obj), Phase: "rel"})
	e.mu.Unlock()
}

// Mode of choosing among enabled threads beyond the prefix.
type Mode int

const (
	First  Mode = iota // DFS default: first enabled
	Random             // seeded random
)

// Run executes the program (one func per thread) under the schedule prefix.
func Run(prog []func(), prefix []int, mode Mode, rng *rand.Rand, maxPreempt int, setup func(*Exec)) *Exec {
	globalMu.Lock()
	defer globalMu.Unlock()
	e := &Exec{sig: make(chan int), held: map[any]*thread{}, names: map[any]string{}, prefix: prefix, rng: rng,
		maxPre: maxPreempt}
	if setup != nil {
		setup(e)
	}
	for i := range prog {
		e.threads = append(e.threads, &thread{id: i, gate: make(chan struct{}), parked: true})
	}
	current = e
	e.active = true
	for i, f := range prog {
		t, f := e.threads[i], f
		go func() {
			<-t.gate
			f()
			t.done = true
			t.parked = false
			e.sig <- t.id
		}()
	}
	last := -1
	for {
		var enabled []*thread
		alldone := true
		for _, t := range e.threads {
			if t.done {
				continue
			}
			alldone = false
			if !t.parked {
				continue
			}
			if t.pending == nil || e.held[t.pending] == nil {
				enabled = append(enabled, t)
			}
		}
		if alldone {
			break
		}
		if len(enabled) == 0 {
			e.Deadlock = true
			break
		}
		// bounded pre-emption: once the budget is used, keep running the last thread while it is enabled
		choices := enabled
		if e.maxPre >= 0 && e.Preempt >= e.maxPre && last >= 0 {
			for _, t := range enabled {
				if t.id == last {
					choices = []*thread{t}
				}
			}
		}
		step := len(e.Taken)
		idx := 0
		if step < len(e.prefix) {
			idx = e.prefix[step]
			if idx >= len(choices) {
				idx = len(choices) - 1
			}
		} else if mode == Random {
			idx = e.rng.Intn(len(choices))
		}
		e.Taken = append(e.Taken, idx)
		e.Alts = append(e.Alts, len(choices))
		t := choices[idx]
		if last >= 0 && t.id != last {
			for _, u := range enabled {
				if u.id == last {
					e.Preempt++
				}
			}
		}
		last = t.id
		e.mu.Lock()
		if t.pending != nil {
			e.held[t.pending] = t
			e.Trace = append(e.Trace, Event{T: t.id, Op: t.pendOp, Lock: e.name(t.pending), Phase: "acq"})
		}
		e.mu.Unlock()
		t.parked = false
		e.cur = t
		t.gate <- struct{}{}
		select {
		case <-e.sig:
		case <-time.After(5 * time.Second):
			e.Hang = true
		}
		if e.Hang {
			break
		}
	}
	e.active = false
	current = nil
	return e
}

// Next returns the next DFS prefix after an execution, or nil when the search is complete.
func Next(taken, alts []int) []int {
	for i := len(taken) - 1; i >= 0; i-- {
		if taken[i]+1 < alts[i] {
			p := append([]int(nil), taken[:i]...)
			return append(p, taken[i]+1)
		}
	}
	return nil
}
