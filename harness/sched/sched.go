// Package sched turns the verif scheduling hook (internal/common.VerifSchedHook,
// fired before every instrumented lock acquisition and after the matching
// release) into a controlled scheduler: exactly one program thread runs between
// two scheduling points, and a stateless depth-first search enumerates every
// interleaving of a small concurrent program at lock-acquisition granularity.
// It decides nothing: executions are recorded and judged by TLC.
//
// Whether a parked thread may run is decided from the REAL state of the lock
// it announced (sync.Mutex.TryLock / GenericSyncMap.VerifProbe while every
// program thread is stopped), not from book-keeping, so a change of lock scope
// inside an instrumented method is still explored faithfully.  An announcement
// may be stale (the method no longer takes the lock it announces): the first
// time a thread announces a lock that is really held, it is released
// speculatively; if it does block, the announcement is learnt to be truthful,
// otherwise that scheduling point is treated as a plain yield from then on.
package sched

import (
	"fmt"
	"math/rand"
	"runtime"
	"sync"
	"sync/atomic"
	"time"

	"github.com/metal-toolbox/audito-maldito/internal/common"
)

// Event is one scheduling event of an execution.
type Event struct {
	T     int    `json:"t"`
	Op    string `json:"op"`
	Lock  string `json:"lock"`
	Phase string `json:"ph"` // "acq" (released by the scheduler towards this acquisition) | "rel"
}

const (
	stParked  = iota // waiting at a scheduling point
	stRunning        // released, has not reported back yet
	stBlocked        // released, found to be blocked inside a real Lock()
	stDone
)

type thread struct {
	id      int
	gate    chan struct{}
	pending any // lock object it announced (nil: initial start)
	pendOp  string
	state   int
	wasFree bool
}

func reallyFreeCached(t *thread) bool { return t.wasFree }

// Exec is one controlled execution.
type Exec struct {
	mu      sync.Mutex
	threads []*thread
	cur     map[int64]*thread // goroutine id -> thread (slow path, used once a thread blocked in a real lock)
	single  *thread           // the one running thread (fast path)
	multi   atomic.Bool       // several program threads may be running
	sig     chan int
	names   map[any]string
	Trace   []Event
	active  bool

	prefix  []int
	Taken   []int
	Alts    []int
	Preempt int // number of pre-emptive switches taken
	rng     *rand.Rand
	maxPre  int

	Deadlock bool
	Hang     bool
}

var (
	globalMu sync.Mutex
	current  *Exec
	// truthful[op]: 1 = the announcement of op really blocks when the lock is held, 2 = stale (plain yield)
	truthful   = map[string]int{}
	truthfulMu sync.Mutex
)

type prober interface{ VerifProbe() bool }

// reallyFree reports whether the announced lock is free right now.  For a
// sync.RWMutex the announcement does not say whether the method takes the read
// or the write lock: "free for readers only" counts as free (the release is
// then guarded by a time-out, like every release towards a lock that is held).
func reallyFree(obj any) bool {
	switch m := obj.(type) {
	case *sync.Mutex:
		if m.TryLock() {
			m.Unlock()
			return true
		}
		return false
	case *sync.RWMutex:
		if m.TryLock() {
			m.Unlock()
			return true
		}
		if m.TryRLock() {
			m.RUnlock()
			return true
		}
		return false
	case prober:
		return m.VerifProbe()
	}
	return true // harness-owned points (the encoder) never block
}

// sureFree: a release towards this object cannot block.
func sureFree(obj any) bool {
	switch m := obj.(type) {
	case nil:
		return true
	case *sync.Mutex, prober:
		return reallyFree(obj)
	case *sync.RWMutex:
		if m.TryLock() {
			m.Unlock()
			return true
		}
		return false
	}
	return harnessOwned(obj)
}

func init() {
	common.VerifSchedHook = func(obj any, op, phase string) {
		e := current
		if e == nil || !e.active {
			return
		}
		e.hook(obj, op, phase)
	}
}

// Point lets harness-owned objects (the event encoder) be scheduling points.
func Point(obj any, op string) func() {
	e := current
	if e == nil || !e.active {
		return func() {}
	}
	e.hook(obj, op, "before")
	return func() { e.hook(obj, op, "after") }
}

func (e *Exec) name(obj any) string {
	if n, ok := e.names[obj]; ok {
		return n
	}
	n := fmt.Sprintf("L%d", len(e.names))
	e.names[obj] = n
	return n
}

// Name registers a readable name for a (harness-owned, never blocking) scheduling point object.
func (e *Exec) Name(obj any, n string) {
	e.names[obj] = n
	ownedMu.Lock()
	owned[obj] = true
	ownedMu.Unlock()
}

var (
	owned   = map[any]bool{}
	ownedMu sync.Mutex
)

func harnessOwned(obj any) bool {
	ownedMu.Lock()
	defer ownedMu.Unlock()
	return owned[obj]
}

// thread identification: goroutine-local via a map keyed by the gate channel is
// not available inside the hook, so each program thread carries its identity
// in a goroutine-local variable set up by Run (closure) and looked up through
// goid.
func (e *Exec) self() *thread {
	// fast path: exactly one program thread is running (the one last released)
	if !e.multi.Load() {
		return e.single
	}
	id := goid()
	e.mu.Lock()
	t := e.cur[id]
	e.mu.Unlock()
	return t
}

func (e *Exec) hook(obj any, op, phase string) {
	t := e.self()
	if t == nil {
		return // not a program thread
	}
	if phase == "before" {
		e.mu.Lock()
		t.pending, t.pendOp = obj, op
		e.mu.Unlock()
		e.sig <- t.id
		<-t.gate
		return
	}
	e.mu.Lock()
	e.Trace = append(e.Trace, Event{T: t.id, Op: op, Lock: e.name(obj), Phase: "rel"})
	e.mu.Unlock()
}

// goid returns the current goroutine's id (parsed from the stack header).
func goid() int64 {
	var buf [64]byte
	n := runtime.Stack(buf[:], false)
	// "goroutine 123 [running]:"
	var id int64
	for _, c := range buf[10:n] {
		if c < '0' || c > '9' {
			break
		}
		id = id*10 + int64(c-'0')
	}
	return id
}

// Mode of choosing among enabled threads beyond the prefix.
type Mode int

const (
	First  Mode = iota // DFS default: first enabled
	Random             // seeded random
)

const blockTimeout = 3 * time.Millisecond

// slowTimer: the time-out for a release that is not expected to block (reused timer would be nicer; these are rare).
func slowTimer() <-chan time.Time { return time.After(40 * time.Millisecond) }

// unannounced[op]: a thread released at op was once found blocked in a Lock() it had not announced (a lock taken
// in the middle of a method); later releases at op use the short time-out.
var unannounced = map[string]bool{}

// Run executes the program (one func per thread) under the schedule prefix.
func Run(prog []func(), prefix []int, mode Mode, rng *rand.Rand, maxPreempt int, setup func(*Exec)) *Exec {
	globalMu.Lock()
	defer globalMu.Unlock()
	e := &Exec{sig: make(chan int), names: map[any]string{}, prefix: prefix, rng: rng, maxPre: maxPreempt,
		cur: map[int64]*thread{}}
	if setup != nil {
		setup(e)
	}
	for i := range prog {
		e.threads = append(e.threads, &thread{id: i, gate: make(chan struct{}), state: stParked})
	}
	current = e
	e.active = true
	for i, f := range prog {
		t, f := e.threads[i], f
		go func() {
			e.mu.Lock()
			e.cur[goid()] = t
			e.mu.Unlock()
			<-t.gate
			f()
			e.mu.Lock()
			t.pending = nil
			t.state = stDone
			e.mu.Unlock()
			e.sig <- -(t.id + 1)
		}()
	}
	// absorb reports from threads: id >= 0 parked, id < 0 finished
	progress := 0
	absorb := func(id int) {
		progress++
		if id >= 0 {
			e.threads[id].state = stParked
		} // done state is set by the thread itself
	}
	drain := func(d time.Duration) {
		var tmo <-chan time.Time
		for {
			blocked := false
			for _, u := range e.threads {
				if u.state == stBlocked {
					blocked = true
				}
			}
			if !blocked {
				return
			}
			if tmo == nil {
				tmo = time.After(d)
			}
			select {
			case id := <-e.sig:
				absorb(id)
			case <-tmo:
				return
			}
		}
	}
	last := -1
	for {
		drain(2 * time.Millisecond)
		var enabled []*thread
		var spec []bool
		alldone, anyBlocked := true, false
		for _, t := range e.threads {
			switch t.state {
			case stDone:
				continue
			case stBlocked:
				alldone = false
				anyBlocked = true
				continue
			}
			alldone = false
			if t.state != stParked {
				continue
			}
			t.wasFree = t.pending == nil || reallyFree(t.pending)
			if t.wasFree {
				enabled = append(enabled, t)
				spec = append(spec, false)
				continue
			}
			truthfulMu.Lock()
			k := truthful[t.pendOp]
			truthfulMu.Unlock()
			if k == 2 { // stale announcement: a plain yield
				enabled = append(enabled, t)
				spec = append(spec, false)
			} else if k == 0 { // unknown: try it once
				enabled = append(enabled, t)
				spec = append(spec, true)
			}
		}
		if alldone {
			break
		}
		if len(enabled) == 0 {
			if anyBlocked {
				// a thread blocked in a real Lock() may be about to get through; if nothing moves for a while, the
				// parked threads wait for locks held by blocked threads and the blocked ones for locks held by parked
				// ones (or by each other): a deadlock of the program
				before := progress
				drain(deadlockPatience())
				if progress != before {
					continue
				}
				deadlocksSeen.Add(1)
			}
			e.Deadlock = true
			break
		}
		choices, cspec := enabled, spec
		if e.maxPre >= 0 && e.Preempt >= e.maxPre && last >= 0 {
			for i, t := range enabled {
				if t.id == last {
					choices, cspec = []*thread{t}, []bool{spec[i]}
				}
			}
		}
		step := len(e.Taken)
		idx := 0
		if step < len(e.prefix) {
			idx = e.prefix[step]
			if idx >= len(choices) {
				idx = len(choices) - 1
			}
		} else if mode == Random {
			idx = e.rng.Intn(len(choices))
		}
		e.Taken = append(e.Taken, idx)
		e.Alts = append(e.Alts, len(choices))
		t := choices[idx]
		if last >= 0 && t.id != last {
			for _, u := range enabled {
				if u.id == last {
					e.Preempt++
				}
			}
		}
		last = t.id
		e.mu.Lock()
		if t.pending != nil {
			e.Trace = append(e.Trace, Event{T: t.id, Op: t.pendOp, Lock: e.name(t.pending), Phase: "acq"})
		}
		op := t.pendOp
		e.mu.Unlock()
		// everything that looks at the thread's announcement is evaluated BEFORE the thread is released: once it
		// runs it overwrites t.pending in its next hook
		speculative := cspec[idx]
		truthfulMu.Lock()
		slowOp := unannounced[op]
		truthfulMu.Unlock()
		risky := speculative || slowOp || (t.pending != nil && (!reallyFreeCached(t) || !sureFree(t.pending)))
		t.state = stRunning
		e.single = t
		t.gate <- struct{}{}
		// wait for t (and for threads that were blocked in real locks and got through meanwhile)
		var deadline <-chan time.Time
		if risky {
			deadline = time.After(10 * time.Second)
		}
	wait:
		for {
			// a released thread normally reports back within microseconds.  If it does not, it is blocked inside a
			// real Lock(): one it announced (risky release: short time-out) or one that has no scheduling point
			// (long time-out).  It is then marked blocked and the others go on; it reports when it gets through.
			var tmo <-chan time.Time
			if risky {
				tmo = time.After(blockTimeout)
			} else {
				tmo = slowTimer()
			}
			select {
			case id := <-e.sig:
				who := id
				if id < 0 {
					who = -id - 1
				}
				absorb(id)
				if who == t.id {
					if speculative {
						truthfulMu.Lock()
						truthful[op] = 2
						truthfulMu.Unlock()
					}
					break wait
				}
			case <-tmo:
				// t did not get past its announced lock: the announcement is truthful
				if speculative {
					truthfulMu.Lock()
					truthful[op] = 1
					truthfulMu.Unlock()
				}
				if !risky {
					truthfulMu.Lock()
					unannounced[op] = true
					truthfulMu.Unlock()
				}
				e.multi.Store(true)
				t.state = stBlocked
				break wait
			case <-deadline:
				e.Hang = true
				break wait
			}
		}
		if e.Hang {
			break
		}
	}
	e.active = false
	current = nil
	return e
}

// deadlockPatience: a thread that was marked blocked may merely be waiting for the CPU (a loaded machine): a deadlock is
// declared only when nothing has moved for two seconds; once deadlocks have been established in this process the wait
// is shortened (a tree that deadlocks on many schedules must not cost hours).
var deadlocksSeen atomic.Int64

func deadlockPatience() time.Duration {
	if deadlocksSeen.Load() > 3 {
		return 250 * time.Millisecond
	}
	return 2 * time.Second
}

// Next returns the next DFS prefix after an execution, or nil when the search is complete.
func Next(taken, alts []int) []int {
	for i := len(taken) - 1; i >= 0; i-- {
		if taken[i]+1 < alts[i] {
			p := append([]int(nil), taken[:i]...)
			return append(p, taken[i]+1)
		}
	}
	return nil
}
